"""Generic driver for the stamp-based schedulers WFQ and VirtualClock (lean/OnlVerif/Net/StampServer.lean).

The harness runs the REAL scheduler on the real kernel, stepping `env.step()` itself.  Taps record every
`put()` and every `out.put()`.  After each kernel step the progress of the scheduler loop is read off public
state only -- `sched.action` / `sched.proc` (`.target`, `.triggered`, `.value`), `store.items`,
`current_packet`, `queue_count`, ... -- and turned into an action label for the model:

    I  loop not started              W  blocked in store.get()       H  get triggered, loop not resumed
    S  send process created          T  transmitting                 D  send process finished, loop not resumed

Labels are hints the model verifies (an action it does not enable is a REJECT, a different snapshot is a
mismatch).  Besides the two line streams (`acts` for the driver, `obs` = what the implementation showed) the run
keeps a plain event history (`hist`) for the direct oracles of harness/c14.py and harness/c12_stamp.py.
"""
import collections
from fractions import Fraction
from onl.sim import Environment
from onl.packet import Packet
from onl.scheduler import WFQ, VC, Monitor
from vlib.util import bits, quiet
from harness import construct

INF = float('inf')


class StopRun(Exception):
    """raised by a tap to end the case after the implementation raised"""


class Recorder:
    """recording sink: the `out` of the scheduler under test"""

    def __init__(self, run):
        self.run = run

    def put(self, packet):
        self.run.outs.append(packet)
        self.run.ledger.append(('dep', self.run.kstep, self.run.env.now, packet))
        self.run.hist.append(('dep', self.run.env.now, packet))
        self.run.departures.append((self.run.env.now, packet))


def phase_of(loop):
    t = loop.target
    name = type(t).__name__
    if name == 'Initialize':
        return 'I'
    if name == 'StoreGet':
        return 'H' if t.triggered else 'W'
    if name == 'Process':
        if t.triggered:
            return 'D'
        sub = type(t.target).__name__
        if sub == 'Initialize':
            return 'S'
        if sub == 'Timeout':
            return 'T'
        return '?P' + sub
    return '?' + name


def key_part(it, i):
    """i-th component of a PriorityItem's key as a bit pattern ('?' if the key has no such component)"""
    pr = it.priority
    try:
        return bits(pr[i])
    except Exception:
        return '?'


def fl(d):
    return ','.join(f'{k}:{bits(d[k])}' for k in sorted(d))


class StampRun:
    """one case: a scheduler, scripted sources, optional monitors"""

    def __init__(self, env, sched, kind):
        self.env, self.sched, self.kind = env, sched, kind
        self.loop = sched.action if kind == 'wfq' else sched.proc
        self.acts, self.obs = [], []
        self.hist = []                 # ('arr'|'choose'|'start'|'dep'|'done'|'sample'|'snap', time, ...)
        self.outs = []
        self.arrivals, self.departures = [], []
        self.monitors = []             # [monitor, included, rounds seen]
        self.raised = None
        self.steps = 0
        self.peers = []                # StampRuns of other scheduler instances living in the same Environment (family `multi`)
        # the harness's own account for `start_oracle`: ('arr' | 'send' | 'dep', kernel step, instant, packet) in the order the taps saw
        # them - put() returned, send_packet(packet) was called (the transmission starts), out.put(packet).  `kstep` counts the
        # kernel steps (env.step() calls) of the case: the puts of one step are one burst handed over by one process activation
        self.ledger, self.kstep = [], 0
        sched.out = Recorder(self)
        self._orig_put = sched.put
        sched.put = self._tapped_put
        self._orig_send = sched.send_packet
        sched.send_packet = self._tapped_send

    # -- snapshots ----------------------------------------------------------------------------
    def snap(self, now=None):
        s = self.sched
        now = self.env.now if now is None else now
        its = sorted((it for it in s.store.items if hasattr(it, 'item')), key=lambda it: it.item.packet_id)
        items = ','.join(f'{it.item.packet_id}:{key_part(it, 0)}:{key_part(it, 1)}' for it in its)
        if len(its) != len(s.store.items):
            items += ',?'               # something that is not a PriorityItem sits in the store
        cur = s.packet_in_service.packet_id if s.packet_in_service is not None else '-'
        flows = s.all_flows()
        qc = ','.join(f'{f}:{s.size(f)}' for f in flows)
        qb = ','.join(f'{f}:{s.byte_size(f)}' for f in flows)
        if self.kind == 'wfq':
            act = ','.join(str(c) for c in sorted(s.active_set))
            ccd = getattr(s, 'class_count', None)
            cc = ','.join(f'{c}:{ccd[c]}' for c in sorted(ccd)) if ccd is not None else '?'
            dev = f'vt={bits(s.vtime)} lt={bits(s.last_time)} ft={fl(s.finish_times)} as={act} cc={cc}'
        else:
            dev = f'vc={fl(s.vc)} aux={fl(s.aux_vc)}'
        return f'it={items} ph={phase_of(self.loop)} cur={cur} qc={qc} qb={qb} {dev} now={bits(now)}'

    def public(self):
        """public per-flow figures, for the counters oracle"""
        s = self.sched
        return {f: (s.size(f), s.byte_size(f)) for f in s.all_flows()}

    # -- taps ---------------------------------------------------------------------------------
    def _tapped_put(self, packet):
        self.acts.append(f'put {packet.packet_id} {packet.flow_id} {packet.size}')
        try:
            self._orig_put(packet)
        except Exception as x:
            self.obs.append(f'RAISE {type(x).__name__}')
            self.raised = ('put', type(x).__name__, str(x), packet.packet_id, packet.flow_id)
            raise StopRun()
        self.arrivals.append((self.env.now, packet))
        self.ledger.append(('arr', self.kstep, self.env.now, packet))
        key = None
        for it in self.sched.store.items:
            if getattr(it, 'item', None) is packet:
                key = tuple(it.priority) if isinstance(it.priority, tuple) else (it.priority,)
        self.hist.append(('arr', self.env.now, packet, key, self.dev_figures(), self.public()))
        self.obs.append(f'put acc | {self.snap()}')

    def _tapped_send(self, packet):
        self.ledger.append(('send', self.kstep, self.env.now, packet))
        return self._orig_send(packet)

    def dev_figures(self):
        s = self.sched
        if self.kind == 'wfq':
            return {'vtime': float(s.vtime), 'finish': dict(s.finish_times), 'last': float(s.last_time),
                    'active': sorted(s.active_set)}
        return {'vc': dict(s.vc), 'aux': dict(s.aux_vc)}

    def add_monitor(self, mon, included):
        self.monitors.append([mon, included, 0])

    # -- main loop ----------------------------------------------------------------------------
    def run(self, max_steps=20000):
        try:
            self._run(max_steps)
        except StopRun:
            pass
        except Exception as x:          # the scheduler's own processes died
            self.raised = ('step', type(x).__name__, str(x), None, None)
            self.obs.append(f'RAISE {type(x).__name__}')
        return self

    def _run(self, max_steps):
        """steps the kernel; every scheduler instance of the group (this one and its `peers`) reads its own progress off
        its own public state before and after each kernel step and keeps its own action / observation / history streams"""
        env = self.env
        group = [self] + self.peers
        while env.peek() < INF and self.steps < max_steps:
            self.steps += 1
            t = env.peek()
            for g in group:
                g._pre(t)
            with quiet():
                env.step()
            if any(g.raised for g in group):    # a tapped put raised: the case ends there
                if not self.raised:
                    self.raised = next(g.raised for g in group if g.raised)
                return
            for g in group:
                g._post()

    def _pre(self, t):
        env, loop, s = self.env, self.loop, self.sched
        self.kstep += 1
        if t > env.now:
            self.acts.append(f'tick {bits(t)}')
            self.obs.append(f'tick - | {self.snap(now=t)}')
            self.hist.append(('tick', t, phase_of(loop), len(s.store.items)))
        self._before = (phase_of(loop), loop.target, [it.item for it in s.store.items if hasattr(it, 'item')],
                        len(self.outs), s.packet_in_service)

    def _post(self):
        env, loop, s = self.env, self.loop, self.sched
        ph0, tgt0, waiting, n_out, cur0 = self._before
        ph1, tgt1 = phase_of(loop), loop.target
        label = None
        if ph1 != ph0 or tgt1 is not tgt0:
            chosen = None
            if ph1 == 'H':
                item = tgt1.value
                chosen = item.item
            if ph0 == 'I':
                label = 'init' + (f' {chosen.packet_id}' if chosen is not None else '')
            elif ph0 == 'W' and ph1 == 'H':
                label = f'handoff {chosen.packet_id}'
            elif ph0 == 'H' and ph1 == 'S':
                label = 'resume'
            elif ph0 == 'S' and ph1 == 'T':
                label = 'sendInit'
            elif ph0 == 'T' and ph1 == 'D':
                label = 'sendFire'
            elif ph0 == 'D' and ph1 in ('W', 'H'):
                label = 'sendDone' + (f' {chosen.packet_id}' if chosen is not None else '')
            else:
                label = f'?{ph0}{ph1}'
            if chosen is not None:
                self.hist.append(('choose', env.now, chosen, waiting))
            if label == 'sendInit':
                self.hist.append(('start', env.now, s.packet_in_service))
            if ph0 == 'D':
                self.hist.append(('done', env.now, self.dev_figures()))
            out = f'dep {self.outs[n_out].packet_id}' if len(self.outs) > n_out else '-'
            self.acts.append(label)
            self.obs.append(f'{label.split(" ")[0]} {out} | {self.snap()}')
            self.hist.append(('snap', env.now, self.public()))
        elif len(self.outs) > n_out:
            self.acts.append('sendFire')
            self.obs.append(f'UNLABELLED-OUT {self.outs[n_out].packet_id}')
        elif cur0 is not s.packet_in_service:
            self.acts.append('sendInit')
            self.obs.append('UNLABELLED-CURRENT-PACKET')
        for m in self.monitors:
            mon = m[0]
            n = sum(len(v) for v in mon.sizes.values())
            if n != m[2]:
                m[2] = n
                flows = [f for f in s.all_flows() if mon.sizes.get(f)]
                line = ','.join(f'{f}:{mon.sizes[f][-1]}:{mon.byte_sizes[f][-1]}' for f in flows)
                self.acts.append(f'sample {1 if m[1] else 0}')
                self.obs.append(f'sample {line}')
                self.hist.append(('sample', env.now, m[1], {f: (mon.sizes[f][-1], mon.byte_sizes[f][-1]) for f in flows},
                                  s.packet_in_service))


def source(env, run, script, counter, ages=None):
    """a source process: script = [(delay, [(flow, size), ...]), ...].  `ages`: the n-th packet handed to the scheduler was created
    ages[n mod len] before it arrives (it crossed a wire, a port, another hop): its `time` field is its creation instant, not `now`"""
    for delay, burst in script:
        yield env.timeout(delay)
        for flow, size in burst:
            counter[0] += 1
            born = env.now - ages[(counter[0] - 1) % len(ages)] if ages else env.now
            run.sched.put(Packet(born, size, counter[0], src='src', flow_id=flow))


def header(c):
    tab = ' '.join(f'{k} {bits(v)}' for k, v in c['table'])
    f2c = ' '.join(f'{f} {k}' for f, k in c['f2c'])
    return f"CASE {c['cid']} {c['kind']} {bits(c['rate'])} W {len(c['table'])} {tab} F {len(c['f2c'])} {f2c}".replace('  ', ' ')


def build_instance(env, c):
    """the scheduler of (sub-)case `c` with its sources and monitors in `env`; returns its StampRun (not yet run)"""
    table = {int(k): v for k, v in c['table']}
    f2c = {int(f): int(k) for f, k in c['f2c']}
    kw = {}
    if not c.get('f2c_default'):
        kw['flow2class'] = lambda f: f2c[f]
    # c['ctor'] == 'positional': every published constructor parameter positionally, in the published order, debug=True included
    # (harness/construct.py; DESIGN section 3).  Construction style is not an input of the model: the replay is the same.
    style = 'positional' if c.get('ctor') == 'positional' else 'legacy'
    if c['kind'] == 'wfq':
        sched = construct.build(WFQ, dict(env=env, rate=c['rate'], weights=table, **kw), style)
    else:
        sched = construct.build(VC, dict(env=env, rate=c['rate'], vticks=table, **kw), style)
    run = StampRun(env, sched, c['kind'])
    counter = [0]
    for script in c['sources']:
        env.process(source(env, run, script, counter, c.get('ages')))
    for m in c.get('monitors') or []:
        n = [0]
        def dist(n=n, m=m):
            n[0] += 1
            return m['period'] if n[0] <= m.get('rounds', 30) else INF
        mon = Monitor(env, sched, dist, m['included'])
        run.add_monitor(mon, m['included'])
    return run


def run_impl(c):
    """build the scheduler of case `c` - and, for a `multi` case, the other scheduler instances (`peers`) that live and
    carry traffic in the same Environment - run to exhaustion, return the StampRun (the peers' runs in `.peers`)"""
    if any(uc.get('ctor') == 'positional' for uc in [c] + list(c.get('peers') or [])):
        with construct.swallowed():         # debug=True devices print on every packet: swallowed for the duration of the case
            return _run_impl(c)
    return _run_impl(c)


def _run_impl(c):
    env = Environment()
    run = build_instance(env, c)
    for pc in c.get('peers') or []:
        run.peers.append(build_instance(env, pc))
    run.run()
    return run


def first_diff(a, b):
    b = b or []
    for i in range(max(len(a), len(b))):
        if i >= len(a) or i >= len(b) or a[i] != b[i]:
            return i, (a[i] if i < len(a) else None), (b[i] if i < len(b) else None)
    return None


# ---- case generator (shared by C14 and the WFQ/VC half of C12) ---------------------------------------

# rate -> a packet size (bytes) whose transmission time is a "round" float, so that arrivals can be placed
# exactly at transmission ends
UNIT = {8.0: 1, 64.0: 8, 1000.0: 125, 3.0: 3, 1e6: 125, 0.5: 1, 8: 1}
INT_W = [1, 1, 2, 3, 4, 5, 8]
DYADIC_W = [0.25, 0.5, 0.75, 1.0, 1.5, 2.0, 3.0, 4.0]
ANY_W = [0.1, 0.3, 0.7, 1.1, 2.5, 1 / 3]
VTICKS = [0.125, 0.25, 0.5, 1.0, 2.0, 1, 2, 3, 0.1, 0.3, 0.001, 1.5]
FAMILIES = ['random'] * 7 + ['static'] * 3 + ['ties'] * 3 + ['idle'] * 2 + ['edge'] * 4 + ['busyend'] * 2 + ['malformed'] + ['multi'] * 2 + ['longbusy']


def gen_multi(rng, cid, kind, aged=0.0):
    """several scheduler instances alive in ONE Environment, each with its own table, sources and monitors, with
    overlapping class ids (the output ports of a switch, the hops of a path): the per-scheduler state of the property
    (finish stamps, virtual time, auxVC) is the state of THAT scheduler.  Every instance is observed, replayed through
    the model as a case of its own, and judged by the stamp and order oracles on its own arrivals only."""
    base = rng.choice(['random', 'random', 'edge', 'static', 'ties', 'idle'])
    c = _gen_case_aged(rng, cid, kind, base, aged=aged)
    c['family'], c['base_family'] = 'multi', base
    classes = [k for k, _ in c['table']]
    c['peers'] = []
    for j in range(rng.choice([1, 1, 2])):
        other = 'vc' if c['kind'] == 'wfq' else 'wfq'
        p = _gen_case_aged(rng, f'{cid}.p{j + 1}', c['kind'] if rng.random() < 0.7 else other,
                     rng.choice(['random', 'random', 'edge', 'static', 'idle']), share=classes,
                     rate=c['rate'] if rng.random() < 0.6 else None)
        p['monitors'] = p['monitors'][:1]
        c['peers'].append(p)
    return c


POSITIONAL_SHARE = 0.15


def gen_case(rng, cid, kind=None, family=None, share=None, rate=None, aged=0.0):
    """a case; in a share of them the scheduler under test - and, independently, each peer of a `multi` group - is built with ALL
    published constructor parameters positional, debug=True among them (harness/construct.py)"""
    c = _gen_case_aged(rng, cid, kind, family, share, rate, aged)
    for uc in [c] + list(c.get('peers') or []):
        if rng.random() < POSITIONAL_SHARE:
            uc['ctor'] = 'positional'
    return c


def _gen_case_aged(rng, cid, kind=None, family=None, share=None, rate=None, aged=0.0):
    """`aged`: share of the cases whose packets reach the scheduler some time after they were created (`Packet.time` < arrival
    instant, as behind a Wire): "the earlier arrival on equal stamps" is the earlier arrival AT THE SCHEDULER, whatever the packets'
    own creation stamps say.  The whole workload is shifted by the largest age so that creation instants stay >= 0."""
    kind = kind or rng.choice(['wfq', 'wfq', 'vc'])
    family = family or rng.choice(FAMILIES)
    if family == 'multi':
        return gen_multi(rng, cid, kind, aged)
    c = _gen_case(rng, cid, kind, family, share, rate)
    if aged and rng.random() < aged:
        ts = UNIT[c['rate']] * 8.0 / c['rate']
        c['ages'] = [rng.choice([0, 0, 0, ts, 3 * ts, 2.5 * ts, 10 * ts, 0.5 * ts, 64 * ts]) for _ in range(rng.randint(2, 7))]
        off = max(c['ages'])
        for script in c['sources']:
            if script:
                script[0] = (script[0][0] + off, script[0][1])
    return c


def _gen_case(rng, cid, kind, family, share=None, rate=None):
    rate = rate if rate is not None else rng.choice(list(UNIT))
    unit = UNIT[rate]
    ts = unit * 8.0 / rate                      # transmission time of one unit
    ncls = rng.choice([1, 2, 2, 3, 3, 4])
    classes = sorted(rng.sample(range(12), ncls))
    if share:                                   # an instance of a `multi` group: at least one class id in common with the first
        common = rng.sample(sorted(share), rng.randint(1, min(len(share), ncls)))
        classes = sorted(common + rng.sample([k for k in range(12) if k not in share], ncls - len(common)))
    if kind == 'wfq':
        style = rng.choice(['int', 'dyadic', 'mixed', 'equal'] + (['any'] if ncls <= 2 else []))
        # b-fixwfq BEGIN: weights that are not whole / dyadic with three or more classes (about 12% of those cases).  WFQ adds the
        # weights of the backlogged classes in *table order* (`for i in self.weights: if i in self.active_set`), the model in ascending
        # class order: the doubles agree for every workload when the table lists the classes in ascending order (style `anyasc`: the
        # table is not shuffled below).  A shuffled table with such weights is outside the model's Float replay.
        if ncls >= 3 and style != 'equal' and rng.random() < 0.15:
            style = 'anyasc'
        # b-fixwfq END
        pool = {'int': INT_W, 'dyadic': DYADIC_W, 'mixed': INT_W + DYADIC_W, 'any': ANY_W, 'anyasc': ANY_W + [0.6], 'equal': [rng.choice(INT_W + DYADIC_W)]}[style]
    else:
        style = rng.choice(['vtick', 'equal'])
        pool = VTICKS if style == 'vtick' else [rng.choice(VTICKS)]
    if family == 'ties':
        pool = [rng.choice(pool)]
    table = [[k, rng.choice(pool)] for k in classes]
    if style != 'anyasc':                       # b-fixwfq (see above)
        rng.shuffle(table)                      # dict key order is an input too
    if rng.random() < 0.5:
        f2c = [[k, k] for k in classes]
        default = rng.random() < 0.5            # pass no flow2class at all
    else:
        nfl = rng.randint(ncls, ncls + 3)
        flows = sorted(rng.sample(range(20), nfl))
        maps = classes + [rng.choice(classes) for _ in range(nfl - ncls)]
        rng.shuffle(maps)
        f2c = [[f, k] for f, k in zip(flows, maps)]
        default = False
    flows = [f for f, _ in f2c]
    sizes = [unit * k for k in (1, 1, 2, 3, 5)] + [unit * 2 + 1, 7 * unit]
    c = {'cid': str(cid), 'kind': kind, 'family': family, 'rate': rate, 'table': table, 'f2c': f2c,
         'f2c_default': default, 'style': style, 'sources': [], 'monitors': []}

    def burst(n, same_size=None):
        return [(rng.choice(flows), same_size or rng.choice(sizes)) for _ in range(n)]

    if family == 'static':
        t0 = rng.choice([0, 0, ts, 3.5, 0.1])
        c['sources'].append([(t0, burst(rng.randint(3, 16)))])
    elif family == 'ties':
        sz = rng.choice(sizes)
        script, d = [], rng.choice([0, 0, ts])
        for _ in range(rng.randint(1, 4)):
            script.append((d, burst(rng.randint(3, 7), sz)))
            d = rng.choice([0, ts * sz / unit, ts, 2 * ts, 40 * ts])
        c['sources'].append(script)
        if rng.random() < 0.4:
            c['sources'].append([(rng.choice([0, ts]), burst(rng.randint(2, 4), sz))])
    elif family == 'idle':
        script = []
        for _ in range(rng.randint(2, 5)):
            script.append((rng.choice([0, 200 * ts, 500 * ts, 1000.25 * ts]), burst(rng.randint(1, 5))))
        c['sources'].append(script)
    elif family == 'busyend':
        # arrivals exactly at the end of a busy period, from a timer created during its last transmission: they are
        # processed between out.put() of the last packet and the scheduler loop's bookkeeping burst
        script, d = [], rng.choice([0, ts, 2.5 * ts])
        for _ in range(rng.randint(1, 3)):
            b = [(rng.choice(flows), unit * rng.choice([1, 1, 2, 3, 5])) for _ in range(rng.randint(1, 4))]
            total = sum(sz for _, sz in b) // unit * ts
            script.append((d, b))
            script.append((total - 0.5 * ts, []))
            d = 0.5 * ts
        script.append((d, burst(rng.randint(1, 4))))
        c['sources'].append(script)
        if rng.random() < 0.3:
            c['sources'].append([(rng.choice([0, ts, 3 * ts]), burst(rng.randint(1, 2)))])
    elif family == 'longbusy':
        # ONE busy period in which WFQ's virtual time grows beyond 1e6 (2e6, 4e6 ...): few packets, each so large that its transmission
        # moves V by about 1e5.  "V and all F are reset to 0 only when the scheduler empties": in between F = max(F_prev, V) + cost holds
        # whatever the magnitude of V.  The sharpest constellation: a light class `a` whose first packet arrives alone (it is transmitted
        # first), so that its finish stamp 8*size/(rate*w_a) lies far ahead of V; `a` is then idle for a long stretch while the other
        # classes stay backlogged, and returns with small packets while its F is still ahead of V: they are stamped F_a + cost and wait
        # behind the packets of the others with smaller stamps.
        cls = [k for k, _ in table]
        w_of = dict(map(tuple, table))
        a = min(cls, key=lambda k: (w_of[k], rng.random()))          # the lightest class
        others = [k for k in cls if k != a] or [a]
        wsum = sum(w for _, w in table)
        fl_of = {k: [f for f, kk in f2c if kk == k] for k in cls}
        # dv: growth of V per long packet while every class is backlogged (long packet = M units); ka long packets' worth for the first
        # packet of `a`: its stamp F_a = dv*wsum*ka/w_a should lie beyond 1e6 while V at the end of its transmission (dv*ka) is below
        target = rng.uniform(1.2e6, 3.5e6)
        for dv in rng.sample([0.5e5, 1e5, 1e5, 2e5, 3e5], 5) + [0.25e5]:
            ka = max(1, round(target * w_of[a] / (dv * wsum)))
            if dv * ka < 0.9e6 and dv * wsum * ka / w_of[a] > 1.1e6:
                break
        M = max(1, int(dv * wsum / ts))
        L = unit * M
        fa, vta = dv * wsum * ka / w_of[a], dv * ka
        g = dv * wsum / max(wsum - w_of[a], w_of[a])                  # growth of V per long packet once `a` is idle
        jmin = max(1, int((1e6 - vta) / g) + 1)                       # long packets after which V has passed 1e6 ...
        jmax = max(jmin, min(int((fa - vta) / g) - 1, jmin + 12))     # ... and not yet F_a
        j = rng.randint(jmin, jmax)
        first = [(rng.choice(fl_of[a]), L * ka)]
        back = [(rng.choice(fl_of[rng.choice(others)]), L) for _ in range(min(60, j + rng.randint(3, 10)))]
        t0 = rng.choice([0, 0, ts])
        c['sources'].append([(t0, first), (rng.choice([0.5, 1, 2.5]) * ts, back)])      # `a` alone first: it is in transmission when the others arrive
        script, d = [], t0 + ts * M * (ka + j + rng.choice([0.25, 0.5, 0.75]))
        for _ in range(rng.randint(1, 3)):
            script.append((d, [(rng.choice(fl_of[a]), unit * rng.choice([1, 2, 5, M // 10 + 1])) for _ in range(rng.choice([1, 1, 2, 3]))]))
            d = ts * M * rng.choice([0.5, 1, 2, 3.25])
        c['sources'].append(script)
        if rng.random() < 0.4:
            c['sources'].append([(ts * M * (rng.randint(2, 10) + 0.25), burst(rng.randint(1, 3), L))])
    elif family == 'edge':
        for _ in range(rng.randint(1, 3)):
            script = []
            for _ in range(rng.randint(2, 8)):
                d = rng.choice([0, 0, 1, 1, 2, 3, 5]) * ts
                hops = rng.choice([1, 1, 2])   # an arrival split over two timeouts is scheduled later
                if hops == 2 and d > 0:
                    k = rng.choice([1, 2, 3])
                    script.append((d * k / 4 if k < 4 else d, []))
                    script.append((d - d * k / 4, burst(rng.choice([1, 1, 2]))))
                else:
                    script.append((d, burst(rng.choice([1, 1, 2, 3]))))
            c['sources'].append(script)
    else:
        for _ in range(rng.randint(1, 3)):
            script = []
            for _ in range(rng.randint(1, 8)):
                d = rng.choice([0, 0, ts, ts, 2 * ts, 0.5 * ts, 5 * ts, 12.5, round(rng.random() * 10 * ts, 3), 100 * ts])
                script.append((d, burst(rng.choice([1, 1, 1, 2, 3, 5]))))
            c['sources'].append(script)
    if family == 'malformed':
        bad = rng.choice([f for f in range(25) if f not in flows and (not default or f not in classes)])
        c['f2c_default'] = False
        if rng.random() < 0.5:
            c['f2c'] = c['f2c'] + [[bad, 99]]   # a flow mapped onto a class that has no weight / vtick
        c['sources'][0].append((rng.choice([0, ts]), [(bad, unit)]))
        c['bad_flow'] = bad
    for _ in range(rng.choice([0, 0, 1, 1, 2])):
        c['monitors'].append({'included': rng.random() < 0.5, 'period': rng.choice([0.5 * ts, ts, ts, 3 * ts, 0.37 * ts]),
                              'rounds': rng.randint(3, 25)})
    return c


def replay(cases, chunk=400):
    """run every case on the implementation and through the model; yields (case, StampRun, model lines) chunk by chunk (a generator:
    the runs of a chunk - environments, scheduler objects, traces - are released once the consumer has moved on).
    The instances of a `multi` case are replayed as cases of their own (`<cid>.p<j>`); their observation and model
    streams are appended to those of the first instance behind a `PEER j` line, so that one comparison covers the group."""
    from vlib.util import run_driver, split_cases
    for i in range(0, len(cases), chunk):
        part, text, runs = cases[i:i + chunk], [], {}
        for c in part:
            r = run_impl(c)
            runs[c['cid']] = r
            text.append(header(c)); text += r.acts; text.append('END')
            for j, (pc, pr) in enumerate(zip(c.get('peers') or [], r.peers)):
                text.append(header(dict(pc, cid=f"{c['cid']}.p{j + 1}"))); text += pr.acts; text.append('END')
        model = split_cases(run_driver('stamp', '\n'.join(text) + '\n'))
        for c in part:
            r, m = runs[c['cid']], model.get(c['cid'])
            for j, pr in enumerate(r.peers):
                pm = model.get(f"{c['cid']}.p{j + 1}")
                r.obs = r.obs + [f'PEER {j + 1}'] + pr.obs
                m = None if (m is None or pm is None) else m + [f'PEER {j + 1}'] + pm
            yield (c, r, m)


def expected_stamps(c, run):
    """Direct oracle for the stamps, independent of the Lean model: recompute every stamp from the observed
    history of arrivals and service-end bookkeeping bursts, with the float expression order of the
    specification.  Returns ({packet id: (stamp, arrival instant)}, [failures]).

    For a `multi` case the other instances of the group are judged here too, each on its own history only: C14's
    `auxVC_c = max(now, auxVC_c) + vtick_c` / `F = max(F of c's previous packet, V) + ...` speak of the state of the
    scheduler the packet arrives at, and "transmits next the waiting packet with the smallest stamp" of the packets
    waiting at that scheduler - whatever other schedulers with the same class ids do in the same process."""
    exp, fails = _expected_stamps(c, run)
    for j, (pc, pr) in enumerate(zip(c.get('peers') or [], getattr(run, 'peers', []))):
        exp_p, fp = _expected_stamps(pc, pr)
        fo, _, _ = order_oracle(pr, exp_p)
        fo = start_oracle(pr, exp_p)[0] + fo
        for f in fp + fo:
            f['what'] = f'instance {j + 2} of {len(run.peers) + 1} schedulers in one Environment ({pc["kind"]}, classes {sorted(k for k, _ in pc["table"])}): ' + f['what']
            fails.append(f)
    if getattr(run, 'peers', None):
        for f in fails:
            if not f['what'].startswith('instance '):
                f['what'] = f'instance 1 of {len(run.peers) + 1} schedulers in one Environment: ' + f['what']
    return exp, fails


def _expected_stamps(c, run):
    table = {int(k): v for k, v in c['table']}
    f2c = {int(f): int(k) for f, k in c['f2c']}
    rate = c['rate']
    fails, exp = [], {}
    last_dep = None
    if c['kind'] == 'wfq':
        V, F, last, backlog = 0.0, {}, 0.0, collections.Counter()

        def advance(t):
            nonlocal V
            ws = 0.0
            for k in table:                     # b-fixwfq: in table order, as `update_vtime` adds them (the same double as in any other
                if backlog[k] > 0:              # order for whole / dyadic weights and for at most two classes)
                    ws += table[k]
            V += (t - last) / ws

        # `backlog`: packets of each class the virtual clock still counts (it advances over the interval that ends now
        # with the classes that were in the scheduler during it, so a packet that left in this very instant counts until
        # the service-end burst); `inside`: packets waiting or in transmission (an arrival to `inside == 0` starts a
        # new busy period: V = 0, all F = 0)
        inside = 0
        for ev in run.hist:
            if ev[0] == 'arr':
                _, t, pkt, key, figs, _ = ev
                cls = f2c[pkt.flow_id]
                fresh = inside == 0
                if fresh:
                    V = 0.0
                    F = {k: 0.0 for k in table}
                else:
                    advance(t)
                inside += 1
                F[cls] = max(F[cls], V) + pkt.size * 8.0 / (rate * table[cls])
                backlog[cls] += 1
                last = t
                exp[pkt.packet_id] = (F[cls], t)
                got = figs['finish'].get(cls)
                if got is None or bits(got) != bits(F[cls]):
                    fails.append({'what': f'WFQ: packet {pkt.packet_id} (class {cls}, size {pkt.size}) arriving at {t}: finish_times[{cls}] = {got}, '
                                          f'specified max(F, V) + 8*size/(rate*w) = {F[cls]} (V = {V}'
                                          + (', no packet was waiting or in transmission at this arrival: V and all F restart from 0)' if fresh else ')'),
                                  'signature': 'wfq-stamp'})
                if bits(figs['vtime']) != bits(V):
                    fails.append({'what': f'WFQ: virtual time after the arrival of packet {pkt.packet_id} at {t} is {figs["vtime"]}, specified {V}',
                                  'signature': 'wfq-vtime'})
                if key is not None and key[:1] != (F[cls],) and got is not None and bits(got) == bits(F[cls]):
                    pass        # the key layout is internal; the order oracle decides whether it matters
            elif ev[0] == 'dep':
                last_dep = ev[2]
                inside -= 1
            elif ev[0] == 'done':
                _, t, figs = ev
                cls = f2c[last_dep.flow_id]
                advance(t)
                backlog[cls] -= 1
                if sum(backlog.values()) == 0:
                    V = 0.0
                    F = {k: 0.0 for k in table}
                    if figs['vtime'] != 0 or any(v != 0 for v in figs['finish'].values()):
                        fails.append({'what': f'WFQ: the scheduler emptied at {t} but vtime = {figs["vtime"]}, finish_times = {figs["finish"]}',
                                      'signature': 'wfq-reset'})
                last = t
                if bits(figs['vtime']) != bits(V):
                    fails.append({'what': f'WFQ: virtual time after the service end at {t} is {figs["vtime"]}, specified {V}', 'signature': 'wfq-vtime'})
    else:
        aux = {k: 0 for k in table}
        for ev in run.hist:
            if ev[0] == 'arr':
                _, t, pkt, key, figs, _ = ev
                cls = f2c[pkt.flow_id]
                aux[cls] = max(t, aux[cls]) + table[cls]
                exp[pkt.packet_id] = (aux[cls], t)
                got = figs['aux'].get(cls)
                if got is None or bits(got) != bits(aux[cls]):
                    fails.append({'what': f'VC: packet {pkt.packet_id} (class {cls}) arriving at {t}: aux_vc[{cls}] = {got}, specified max(now, auxVC) + vtick = {aux[cls]}',
                                  'signature': 'vc-stamp'})
    return exp, fails


def order_oracle(run, exp):
    """at each service decision the chosen packet has the minimal (stamp, arrival instant) among those waiting"""
    fails, ties, full_ties = [], 0, 0
    for ev in run.hist:
        if ev[0] != 'choose':
            continue
        _, t, chosen, waiting = ev
        kc = exp.get(chosen.packet_id)
        if kc is None:
            continue
        for x in waiting:
            kx = exp.get(x.packet_id)
            if kx is None or x is chosen:
                continue
            if kx[0] == kc[0]:
                ties += 1
                if kx[1] == kc[1]:
                    full_ties += 1
            if kx < kc:
                why = 'a smaller stamp' if kx[0] < kc[0] else 'the same stamp and an earlier arrival instant'
                born = ''
                if chosen.time != kc[1] or x.time != kx[1]:
                    born = (f' (their `time` fields - creation, not arrival at this scheduler - are {chosen.time!r} and {x.time!r}; '
                            f'"the earlier arrival on equal stamps" is the earlier arrival at the scheduler)')
                fails.append({'what': f'at {t} packet {chosen.packet_id} (stamp {kc[0]}, arrived {kc[1]}) was taken for transmission while packet '
                                      f'{x.packet_id} (stamp {kx[0]}, arrived {kx[1]}) with {why} was waiting{born}', 'signature': 'stamp-order'})
                break
    return fails, ties, full_ties


def start_oracle(run, exp):
    """"Each of them always transmits next the waiting packet with the smallest stamp (the earlier arrival on equal stamps)", restated
    at the START of every transmission - the call of `send_packet(p)` - over the harness's own account, not over the contents of the
    scheduler's store: waiting = handed to put() (which returned) and send_packet not yet called for it.

    Which of the waiting packets must p be compared with?  The scheduler decides in an activation of its own process, never in the
    middle of the activation of the process that hands a burst over: the packets put in one kernel step (back-to-back put() calls of
    one source activation) reach it together.  Its decision for p therefore comes after the whole step in which p itself arrived, and
    after the step in which the previous transmission ended (out.put).  Every packet waiting at the end of the later of these two steps
    has to be in the comparison.  A packet that arrives in a LATER step - between the decision and the call of send_packet, which the
    unchanged code separates by one kernel event - may or may not have been seen (DESIGN section 3, "decision burst"): not judged.
    Equal (stamp, arrival instant): either order.  -> (failures, statistics)"""
    fails, st = [], collections.Counter()
    waiting, last_dep, sends = {}, 0, 0
    burst = {}                                    # kernel step -> packets put in it while nothing was waiting or in transmission before the step
    busy = None
    for what, k, t, p in run.ledger:
        if what == 'arr':
            if (not waiting and busy is None) or (k in burst):
                burst.setdefault(k, []).append(p)
            waiting[id(p)] = (p, k)
        elif what == 'dep':
            last_dep = k
            if busy is p:
                busy = None
        else:
            me = waiting.pop(id(p), None)
            busy = p
            kc = exp.get(p.packet_id)
            if me is None or kc is None:
                continue
            sends += 1
            bound = max(me[1], last_dep)
            later = 0
            for x, kx_step in waiting.values():
                kx = exp.get(x.packet_id)
                if kx is None:
                    continue
                if kx_step > bound:
                    later += 1
                    continue
                if kx < kc:
                    why = 'a smaller stamp' if kx[0] < kc[0] else 'the same stamp and an earlier arrival instant'
                    how = ('in the same kernel step (the same burst of back-to-back put() calls) as' if kx_step == me[1] else 'in an earlier kernel step than')
                    fails.append({'what': f'at {t} the transmission of packet {p.packet_id} (stamp {kc[0]}, arrived {kc[1]}) was started (send_packet) while packet '
                                          f'{x.packet_id} (stamp {kx[0]}, arrived {kx[1]}) with {why} was waiting: it had been handed to put() {how} packet {p.packet_id}'
                                          + (f' and before the previous transmission ended' if kx_step <= last_dep and last_dep > me[1] else '')
                                          + ' (waiting = accepted by put() and send_packet not yet called, by the harness\'s own account)',
                                  'signature': 'stamp-order-at-start'})
                    break
            st['arrivals between the decision and the start of a transmission (not judged)'] += later
            if fails:
                break
    st['transmission starts judged'] = sends
    # how often the shape occurs: a burst of >= 2 packets handed in one kernel step to a scheduler that was idle (nothing waiting or in transmission), in which
    # the packet put first does not carry the smallest (stamp, arrival instant)
    for k, b in burst.items():
        if len(b) >= 2:
            st['bursts of >= 2 packets handed to an idle scheduler in one kernel step'] += 1
            ks = [exp.get(x.packet_id) for x in b]
            if all(y is not None for y in ks) and min(ks) < ks[0]:
                st['... of which the packet put first does not carry the smallest stamp'] += 1
    return fails, st
