"""Kernel scripts: a small program language interpreted on the REAL onl.sim kernel.

The same script text is replayed by the Lean model (lean/OnlVerif/Kernel/Script.lean, Replay.lean);
`run_case` below produces the implementation's observation trace in exactly the driver's format.
Only public API of onl.sim is used (Environment, events, resources, step/run/peek/now).
"""
import random
from onl.sim import (Environment, Interrupt, Event, Process, AllOf, AnyOf, Container, Resource,
                     PriorityResource, PreemptiveResource, Store, PriorityStore, FilterStore)
from onl.sim.core import EmptySchedule
from onl.sim.resources.resource import Preempted
from onl.sim.events import ConditionValue
from vlib.util import bits

class Cancelled(BaseException):
    """a user exception modelled on asyncio.CancelledError: derives from BaseException, NOT from Exception.  A process may die
    with it or an event may be failed with it like with any other exception (the model treats exception types as opaque names)"""


EXC = {'ValueError': ValueError, 'KeyError': KeyError, 'RuntimeError': RuntimeError,
       'ZeroDivisionError': ZeroDivisionError, 'IndexError': IndexError, 'Cancelled': Cancelled}

FILTERS = [lambda x: True, lambda x: x % 2 == 0, lambda x: x % 2 == 1, lambda x: x >= 5, lambda x: x < 3]

STEP_BUDGET = 5000
MAX_COND_LEAVES = 512        # a condition whose flattened value would have more entries than this cuts the script short (not replayed, not judged)


class Case:
    """a script case: resources, programs, main processes, mode and plan"""

    def __init__(self, cid, mode='step'):
        self.cid = str(cid); self.mode = mode
        self.res = []       # (kind, capacity or None, init)
        self.progs = []     # list of list of instruction tuples
        self.mains = []     # (prog index, name)
        self.plan = []      # ('T', float) | ('E', slot) | ('S', n) | ('A',)

    def text(self):
        out = [f'CASE {self.cid} {self.mode}']
        for k, cap, ini in self.res:
            out.append(f'RES {k} {"inf" if cap is None else cap} {ini}')
        for prog in self.progs:
            out.append('PROG')
            for ins in prog:
                out.append('I ' + ' '.join(fmt_tok(ins[0], i, t) for i, t in enumerate(ins)))
        for p, n in self.mains:
            out.append(f'MAIN {p} {n}')
        if self.mode == 'plan':
            segs = []
            for s in self.plan:
                if s[0] == 'T': segs.append(f'T{bits(s[1])}')
                elif s[0] == 'E': segs.append(f'E{s[1]}')
                elif s[0] == 'S': segs.append(f'S{s[1]}')
                else: segs.append('A')
            out.append('PLAN ' + ' '.join(segs))
        out.append('END')
        return '\n'.join(out)

    def to_json(self):
        return {'cid': self.cid, 'mode': self.mode, 'res': self.res, 'progs': self.progs,
                'mains': self.mains, 'plan': self.plan}

    @staticmethod
    def from_json(j):
        c = Case(j['cid'], j['mode'])
        c.res = [tuple(r) for r in j['res']]
        c.progs = [[tuple(i) for i in p] for p in j['progs']]
        c.mains = [tuple(m) for m in j['mains']]
        c.plan = [tuple(s) for s in j['plan']]
        return c


def fmt_tok(op, i, t):
    if i == 0:
        return t
    if op == 'timeout' and i == 2:
        return str(bits(t))
    if (op in ('timeout', 'succeed') and i == 3 - (op == 'succeed')) or (op == 'ret' and i == 1):
        return 'N' if t is None else f'i{t}'
    if isinstance(t, bool):
        return '1' if t else '0'
    return str(t)


class Runner:
    def __init__(self, case: Case, env=None):
        self.case = case
        self.env = Environment() if env is None else env
        self.lines = []
        self.notes = []          # oracle-only records (never compared with the model)
        self.raised = None
        self._granted, self._reqs = set(), {}      # note_fcfs: requests seen granted; requests per (resource, kind) in creation order
        self._users, self._granted_at, self._owner, self._reqinfo = {}, {}, {}, {}      # note_users (oracle-only)
        self.slots = {}
        self.labels = {}
        self.keep = []
        self.leaves, self._keep, self.oversized = {}, [], False      # leaf occurrences per condition (see MAX_COND_LEAVES)
        self.nlabel = 0
        self.pnames = {}
        self.res = []
        for k, cap, ini in case.res:
            capv = float('inf') if cap is None else cap
            if k == 'resource': r = Resource(self.env, capv)
            elif k == 'priority': r = PriorityResource(self.env, capv)
            elif k == 'preemptive': r = PreemptiveResource(self.env, capv)
            elif k == 'container': r = Container(self.env, capv, ini)
            elif k == 'store': r = Store(self.env, capv)
            elif k == 'pstore': r = PriorityStore(self.env, capv)
            elif k == 'fstore': r = FilterStore(self.env, capv)
            else: raise ValueError(k)
            self.res.append(r)

    # ---- formatting -------------------------------------------------------------------------
    def now(self):
        return bits(self.env.now)

    def new(self, ev):
        self.nlabel += 1
        self.labels[id(ev)] = self.nlabel
        self.keep.append(ev)
        self.hook('new', ev)
        return ev

    def hook(self, what, *a):
        """instrumentation point for the oracle runs (harness/koracle.py); a no-op in the compared runs"""
        return None

    def lab(self, ev):
        return self.labels.get(id(ev), 0)

    def fmt_val(self, v):
        if v is None: return 'None'
        if isinstance(v, bool): return f'i{int(v)}'
        if isinstance(v, int): return f'i{v}'
        if isinstance(v, str): return 's*'
        if isinstance(v, ConditionValue):
            parts = []
            for e in v.events:
                if e._ok: parts.append(f'e{self.lab(e)}={self.fmt_val(e._value)}')
                else: parts.append(f'e{self.lab(e)}=!{type(e._value).__name__}')
            return 'cv[' + ','.join(parts) + ']'
        if isinstance(v, Preempted):
            by = 'None' if v.by is None else str(self.pnames.get(id(v.by), '?'))
            us = 'None' if v.usage_since is None else str(bits(v.usage_since))
            return f'pre({by},{us},{self.res.index(v.resource)})'
        if isinstance(v, Event): return f'e{self.lab(v)}'
        if isinstance(v, BaseException): return 's*'
        return '?' + type(v).__name__

    def fmt_cause(self, c):
        if isinstance(c, Preempted):
            return f'Preempted(resource={self.res.index(c.resource) if c.resource in self.res else "?"})'
        return repr(c)

    def fmt_exc(self, x):
        return type(x).__name__ + ' ' + ' '.join(self.fmt_val(a) for a in x.args)

    def log(self, name, what, v):
        self.lines.append(f'P {name} {what} {self.fmt_val(v)} @{self.now()}')

    def probe_cb(self, tag):
        def cb(ev):
            o = f'ok {self.fmt_val(ev._value)}' if ev._ok else f'fail {self.fmt_exc(ev._value)}'
            self.lines.append(f'B {tag} e{self.lab(ev)} {o} @{self.now()}')
            self.hook('probed', ev, cb)
        return cb

    def snap(self):
        parts = []
        for (k, _, _), r in zip(self.case.res, self.res):
            if k in ('resource', 'priority', 'preemptive'):
                u = ','.join(str(self.lab(e)) for e in r.users)
                q = ','.join(str(self.lab(e)) for e in r.queue)
                parts.append(f'u[{u}] q[{q}]')
            elif k == 'container':
                parts.append(f'lv{r.level} pq{len(r.put_queue)} gq{len(r.get_queue)}')
            else:
                items = sorted(r.items) if k == 'pstore' else list(r.items)
                parts.append(f'it[{", ".join(str(i) for i in items)}] pq{len(r.put_queue)} gq{len(r.get_queue)}')
        self.lines.append('S ' + ' | '.join(parts) + f' @{self.now()}')

    def note_heads(self):
        """oracle-only: for every container/store, can the oldest pending put / get be satisfied right now?"""
        info = []
        for (k, cap, _), r in zip(self.case.res, self.res):
            if k in ('resource', 'priority', 'preemptive'):
                info.append(None); continue
            capv = float('inf') if cap is None else cap
            put_ok = get_ok = False
            if r.put_queue:
                h = r.put_queue[0]
                put_ok = (capv - r.level >= h.amount) if k == 'container' else (len(r.items) < capv)
            if r.get_queue:
                if k == 'container':
                    get_ok = r.level >= r.get_queue[0].amount
                elif k == 'fstore':
                    get_ok = any(g.filter(i) for g in r.get_queue for i in r.items)
                else:
                    get_ok = len(r.items) > 0
            info.append((put_ok, get_ok))
        self.notes.append(('heads', self.env.now, info))

    def note_fcfs(self):
        """oracle-only (C07 "put requests and get requests are each served first come first served"): called right after every
        put/get call and after every kernel step; records each request found granted (triggered) since the last look while an
        OLDER request of the same kind on the same container/store is still waiting in the queue"""
        seen = self._granted
        for ri, ((k, cap, _), r) in enumerate(zip(self.case.res, self.res)):
            if k in ('resource', 'priority', 'preemptive'):
                continue
            for kind, queue in (('put', r.put_queue), ('get', r.get_queue)):
                mine = self._reqs.get((ri, kind), [])
                new = [e for e in mine if id(e) not in seen and e.triggered]
                for x in new:
                    seen.add(id(x))
                for x in new:
                    if not x.ok:
                        continue
                    for y in queue:
                        if y.triggered or self.lab(y) == 0 or self.lab(y) >= self.lab(x):
                            continue
                        if k == 'fstore' and kind == 'get' and not y.filter(x.value):
                            continue      # a FilterStore lets a later getter overtake one whose filter does not match the item
                        what = (f'item {x.item!r}' if k != 'container' else f'amount {x.amount}') if kind == 'put' else \
                               (f'received {x.value!r}' if k != 'container' else f'amount {x.amount}')
                        self.notes.append(('fcfs', k, ri, kind, self.lab(x), self.lab(y), what, self.env.now,
                                           [self.lab(e) for e in queue]))
                        break

    def note_users(self, ctx):
        """oracle-only (C06 "the evicted process receives Interrupt(Preempted(by, usage_since, resource)) and the slot goes to the
        preemptor"): called around every request / release / cancel / with-exit call and after every kernel step; compares the
        public `users` of every resource with what it was at the last look.  A request that entered is granted at this instant.
        A request that left a PreemptiveResource without its owner having released it in this very call was evicted; the
        requests that entered in the same look, are preempting and rank strictly better took the slots."""
        for ri, ((k, _, _), r) in enumerate(zip(self.case.res, self.res)):
            if k not in ('resource', 'priority', 'preemptive'):
                continue
            cur = [self.lab(e) for e in r.users]
            prev = self._users.get(ri, [])
            if cur == prev:
                continue
            self._users[ri] = cur
            added = [x for x in cur if x not in prev]
            removed = [x for x in prev if x not in cur and not (ctx[0] in ('release', 'exit') and x == ctx[1])]
            for a in added:
                self._granted_at.setdefault(a, self.env.now)
            if k == 'preemptive':
                for v in removed:
                    info = self._reqinfo.get(v)
                    takers = [a for a in added if a in self._reqinfo and info is not None and self._reqinfo[a][2] and self._reqinfo[a][3] < info[3]]
                    self.notes.append(('evicted', ri, self.env.now, v, self._owner.get(v), [(a, self._owner.get(a)) for a in takers],
                                       ctx, self._granted_at.get(v), prev, added))

    def track_req(self, ri, kind, ev):
        self._reqs.setdefault((ri, kind), []).append(ev)
        self.note_fcfs()
        return ev

    # ---- the interpreter --------------------------------------------------------------------
    def spawn(self, pidx, name):
        me = []                  # the script process learns which Process object it runs in (set before its first statement)
        p = self.env.process(self.proc(name, pidx, me))
        me.append(p)
        self.new(p)
        self.pnames[id(p)] = name
        self.hook('spawned', p, name)
        return p

    def proc(self, name, pidx, me):
        """the generator handed to env.process(): the script body, plus an oracle-only record of how it ended"""
        try:
            v = yield from self.body(name, pidx, me)
        except GeneratorExit:
            raise
        except BaseException as x:
            self.hook('ended', me[0], name, False, x)
            raise
        self.hook('ended', me[0], name, True, v)
        return v

    def body(self, name, pidx, me):
        env, slots = self.env, self.slots
        prog = self.case.progs[pidx] if pidx < len(self.case.progs) else []
        pc = 0
        inflight = None          # the exception that is unwinding the with-blocks whose `exit` instructions come next (see 'exit')
        self.log(name, 'start', None)
        self.hook('started', me[0], name)
        while pc < len(prog):
            ins = prog[pc]; pc += 1
            op = ins[0]
            if op != 'exit':
                inflight = None      # the handler that encloses the with-blocks has caught it
            try:
                if op == 'timeout':
                    slots[ins[1]] = self.new(env.timeout(ins[2], ins[3]))
                elif op == 'event':
                    slots[ins[1]] = self.new(env.event())
                elif op in ('succeed', 'fail'):
                    if ins[1] in slots:
                        ev = slots[ins[1]]
                        was = ev.triggered
                        try:
                            if op == 'succeed': ev.succeed(ins[2])
                            else: ev.fail(EXC[ins[2]](ins[3]))
                            self.hook('trigger', name, ev, was, False)
                        except RuntimeError:
                            self.hook('trigger', name, ev, was, True)
                            raise
                elif op == 'spawn':
                    slots[ins[1]] = self.spawn(ins[2], ins[3])
                elif op == 'interrupt':
                    ev = slots.get(ins[1])
                    if ev is not None and isinstance(ev, Process):
                        alive, selfi = ev.is_alive, ev is me[0]      # "oneself" = the Process this generator runs in
                        busy = ev.target is not None and ev.target.callbacks is None     # the victim's awaited event is being processed right now
                        try:
                            ev.interrupt(ins[2])
                            self.hook('interrupt', name, ev, ins[2], alive, selfi, False, me[0], busy)
                        except RuntimeError:
                            self.hook('interrupt', name, ev, ins[2], alive, selfi, True, me[0], busy)
                            raise
                elif op == 'probe':
                    ev = slots.get(ins[1])
                    if ev is not None and ev.callbacks is not None:
                        ev.callbacks.append(self.probe_cb(ins[2]))
                        self.hook('probe', ev, ev.callbacks[-1])
                elif op == 'log':
                    self.log(name, 'log', ins[1])
                elif op in ('allof', 'anyof'):
                    evs = [slots[s] for s in ins[2:] if s in slots]
                    mine = list(evs)
                    # the flattened value of a condition has one entry per leaf *occurrence*: a condition over conditions with repeated
                    # operands doubles with every level (the library builds that list when the condition is processed - a random script
                    # in a million reaches 10^8 entries).  Such a script is cut short here and left out of replay and oracles.
                    nleaf = sum(self.leaves.get(id(e), 1) for e in evs)
                    if nleaf > MAX_COND_LEAVES:
                        self.oversized = True
                        slots[ins[1]] = self.new(env.event())
                        continue
                    if len(evs) == 2 and ins[1] % 2 == 0:
                        # two operands, even target slot: the same condition written with the operator (`a & b` is
                        # all_of([a, b]), `a | b` is any_of([a, b])); chains like `(a & b) & c` arise when a slot holds a condition
                        cond = (evs[0] & evs[1]) if op == 'allof' else (evs[0] | evs[1])
                    else:
                        # the operands may be handed over as any iterable (Condition takes an Iterable): which spelling is used
                        # is fixed by the instruction (target slot and arity), the meaning is the same - also for NO operands
                        form = (ins[1] + 2 * len(evs)) % 5
                        opnds = [evs, (e for e in evs), iter(evs), tuple(evs), filter(lambda e: True, evs)][form]
                        self.hook('cond-form', ('list', 'generator', 'iterator', 'tuple', 'filter')[form], len(evs))
                        self.notes.append(('cond-form', ('list', 'generator', 'iterator', 'tuple', 'filter')[form], len(evs)))
                        cond = (AllOf if op == 'allof' else AnyOf)(env, opnds)
                    slots[ins[1]] = self.new(cond)
                    self.leaves[id(cond)] = nleaf
                    self._keep.append(cond)          # (ids stay unique while the run lasts)
                    evs.clear()          # the caller's list is the caller's: a condition must not alias it
                    self.hook('cond', slots[ins[1]], op, mine)
                elif op == 'request':
                    r = self.res[ins[2]]
                    ub, qb = list(r.users), list(r.queue)
                    self.note_users(('sync',))
                    try:
                        if self.case.res[ins[2]][0] == 'resource': slots[ins[1]] = self.new(r.request())
                        else: slots[ins[1]] = self.new(r.request(priority=ins[3], preempt=bool(ins[4])))
                    except BaseException:
                        self.note_users(('sync',))
                        raise
                    self._owner[self.nlabel] = (me[0], name)
                    self._reqinfo[self.nlabel] = (ins[3], env.now, bool(ins[4]), (ins[3], env.now, not bool(ins[4])))
                    self.note_users(('request', self.nlabel))
                    if self.case.res[ins[2]][0] == 'preemptive':
                        # oracle-only: who should have been evicted by this call, restating the rule on the public attributes as
                        # they were before it: waiting requests are considered in rank order; each may evict the worst-ranked
                        # user if that one ranks strictly worse, takes a free slot if there is one, otherwise the scan stops
                        users = list(ub); want = []
                        for e in sorted(qb + [slots[ins[1]]], key=lambda e: (e.key, self.lab(e))):
                            if len(users) >= r.capacity and e.preempt:
                                worst = max(users, key=lambda u: (u.key, self.lab(u)))
                                if worst.key > e.key:
                                    users.remove(worst); want.append(self.lab(worst))
                            if len(users) < r.capacity: users.append(e)
                            else: break
                        self.notes.append(('evict', ins[2], env.now, want, [self.lab(u) for u in ub if u not in r.users],
                                           [self.lab(u) for u in ub], [self.lab(u) for u in qb]))
                    self.notes.append(('req', self.nlabel, ins[2], ins[3], env.now, bool(ins[4])))
                elif op == 'release':
                    if ins[3] in slots:
                        self.note_users(('sync',))
                        slots[ins[1]] = self.new(self.res[ins[2]].release(slots[ins[3]]))
                        self.note_users(('release', self.lab(slots[ins[3]])))
                        if slots[ins[3]] in self.res[ins[2]].users:
                            self.notes.append(('leaked', self.lab(slots[ins[3]]), ins[2], env.now))
                elif op == 'cancel':
                    ev = slots.get(ins[1])
                    if ev is not None and hasattr(ev, 'cancel'):
                        self.note_users(('sync',))
                        try:
                            ev.cancel()
                        finally:
                            self.note_users(('cancel', self.lab(ev)))
                elif op == 'exit':
                    ev = slots.get(ins[1])
                    if ev is not None:
                        self.note_users(('sync',))
                        # `with resource.request() as req: ...` left normally, or - when an exception arrived at a yield inside the
                        # block and its handler (10+k: jump) sits OUTSIDE the block(s) - unwound by that exception: the context
                        # manager protocol then hands the exception triple to __exit__ of every block it passes through, innermost
                        # first.  Either way the slot is given back (model: exit = cancel + release)
                        triple = (None, None, None) if inflight is None else (type(inflight), inflight, inflight.__traceback__)
                        if inflight is not None:
                            self.notes.append(('exit-unwinding', type(inflight).__name__, type(getattr(inflight, 'cause', None)).__name__))
                        try:
                            ev.__exit__(*triple)            # may raise (double cancel) before it releases
                        finally:
                            self.note_users(('exit', self.lab(ev)))
                        self.nlabel += 1                # the Release it created is a program-level event of the model too
                        if ev in self.res[ins[2]].users or ev in self.res[ins[2]].queue:
                            how = '' if inflight is None else (f' (the block was left by {type(inflight).__name__}' + (f' with cause {self.fmt_cause(inflight.cause)}' if isinstance(inflight, Interrupt) else '')
                                                               + ', handled outside the block)')
                            self.notes.append(('leaked', self.lab(ev), ins[2], env.now, how))
                elif op == 'cput':
                    slots[ins[1]] = self.track_req(ins[2], 'put', self.new(self.res[ins[2]].put(ins[3])))
                elif op == 'cget':
                    slots[ins[1]] = self.track_req(ins[2], 'get', self.new(self.res[ins[2]].get(ins[3])))
                elif op == 'sput':
                    slots[ins[1]] = self.track_req(ins[2], 'put', self.new(self.res[ins[2]].put(ins[3])))
                elif op == 'sget':
                    r = self.res[ins[2]]
                    before = list(r.items) if not r.get_queue else None      # older gets waiting: they are served first
                    if self.case.res[ins[2]][0] == 'fstore': slots[ins[1]] = self.new(r.get(FILTERS[ins[3]]))
                    else: slots[ins[1]] = self.new(r.get())
                    g = self.track_req(ins[2], 'get', slots[ins[1]])
                    if before is not None and g.triggered:   # served on the spot from the items present: oracle-only record
                        self.notes.append(('got-now', self.case.res[ins[2]][0], before, g.value, ins[3], env.now))
                elif op == 'ret':
                    return ins[1]
                elif op == 'retev':
                    # the generator returns the event OBJECT a slot holds (the handle of a process it started, of a finished process,
                    # of itself; a shared event, a timeout, a condition) - a return value like any other; None if the slot is empty
                    self.notes.append(('retev', type(slots.get(ins[1])).__name__))
                    return slots.get(ins[1])
                elif op == 'raise':
                    raise_it = EXC[ins[1]](ins[2])
                    raise _UserRaise(raise_it)
            except _UserRaise as u:
                raise u.exc from None
            except (RuntimeError, ValueError) as x:
                self.lines.append(f'P {name} callerr {type(x).__name__} @{self.now()}')
                continue
            if op == 'yield':
                ev = slots.get(ins[1]); h = ins[2]
                while ev is not None:
                    self.hook('yield', name, ev, me[0])
                    try:
                        v = yield ev
                        self.hook('resumed', name, True, v, me[0])
                        self.log(name, 'got', v)
                        break
                    except GeneratorExit:
                        raise
                    except BaseException as x:
                        if isinstance(x, Interrupt) and isinstance(x.cause, Preempted):      # oracle-only: the cause as the victim sees it
                            self.notes.append(('preempted', name, me[0], x.cause.by, x.cause.usage_since, x.cause.resource, env.now))
                        self.hook('resumed', name, False, x, me[0])
                        self.log(name, f'exc {type(x).__name__}', x.args[0] if x.args else None)
                        if h == 1:
                            h = 0; ev = slots.get(ins[1]); continue
                        if h == 2: return 0
                        if h == 3: raise
                        if h >= 10:
                            pc += h - 10
                            inflight = x     # in flight until the first instruction that is not an `exit`
                        break
        return None

    # ---- running ----------------------------------------------------------------------------
    def start(self):
        for p, n in self.case.mains:
            self.spawn(p, n)

    def run(self):
        self.start()
        env = self.env
        if self.case.mode == 'step':
            for _ in range(STEP_BUDGET):
                try:
                    env.step()
                except EmptySchedule:
                    break
                except BaseException as x:
                    self.lines.append(f'X {self.fmt_exc(x)} @{self.now()}')
                    self.raised = x          # oracle-only: the exception object that came out of step()
                    break
                self.snap()
                self.note_heads()
                self.note_fcfs()
                self.note_users(('step',))
            self.lines.append(f'F @{self.now()}')
        else:
            for seg in list(self.case.plan) + [('A',)]:
                try:
                    if seg[0] == 'S':
                        try:
                            for _ in range(seg[1]):
                                try:
                                    env.step()
                                except EmptySchedule:
                                    raise
                                except BaseException as x:
                                    self.lines.append(f'X {self.fmt_exc(x)} @{self.now()}')
                        except EmptySchedule:
                            self.lines.append(f'X EmptySchedule  @{self.now()}')
                        continue
                    if seg[0] == 'T':
                        t0 = env.now
                        v = env.run(until=float(seg[1]))
                        self.notes.append(('until-time', float(seg[1]), t0, env.now))
                    elif seg[0] == 'E':
                        if seg[1] not in self.slots:
                            self.lines.append('R skip'); continue
                        ev = self.slots[seg[1]]
                        was_done = ev.processed
                        try:
                            v = env.run(until=ev)
                        except BaseException:
                            self.hook('until-return', ev, was_done, False)
                            raise
                        self.hook('until-return', ev, was_done, True)
                        self.notes.append(('until-event', ev.processed, getattr(ev, '_ok', None), v is ev._value or v == ev._value, ev.defused, self.lab(ev), was_done))
                    else: v = env.run()
                    self.lines.append(f'R {self.fmt_val(v)} @{self.now()}')
                except BaseException as x:
                    self.lines.append(f'X {self.fmt_exc(x)} @{self.now()}')
            self.lines.append(f'F @{self.now()}')
        return self.lines


class _UserRaise(Exception):
    def __init__(self, exc): self.exc = exc


def run_case(case: Case):
    return Runner(case).run()
