"""C02 - every waiter gets an event's outcome exactly once; failures are never lost."""
from harness import kprops, koracle, kbridge
from harness.kbridge import TRUSTED_EXTRA
EXTRA_MODULES = kbridge.MODULES['C02']      # Props/KernelGen02: Event.succeed / fail, the end of Process._resume, step's crash test
prepare = kbridge.prepare_for('C02')    # regenerates Generated/KernelEvent02.lean only
ASSUMPTIONS = ['succeed()/fail() applied to a Process or Condition object is outside the quantifier (the model reproduces the kernel crash it causes)',
               'CPython generator send/throw semantics; the exception copy is type(v)(*v.args)']
SPEC = [(6, 'outcome'), (2, 'time'), (1, 'cond'), (1, 'intr'), (1, 'victim'), (2, 'plan:outcome'), (1, 'untilfail'), (2, 'decided'), (1, 'launcher'), (1, 'plan:launcher')]
def run(ctx):
    res = kprops.run_kernel(ctx, 'C02', SPEC, 2000, 60000, attribute=kprops.stop_is_not_the_cause, oracles=[kprops.oracle_time_monotone, koracle.oracle_c02, koracle.oracle_until_failed])
    res['coverage'].update(kbridge.coverage('C02'))
    return res
