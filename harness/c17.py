"""C17 - TCP sends only inside its window and adapts it by the Reno/CUBIC rules.

Scripted ACK histories are driven directly into a real `TCPPacketGenerator.put()` by a driver process (new ACKs
advancing by any number of segments, runs of duplicate ACKs of any length, arbitrary RTT samples, pauses that let
retransmission timers expire), with `out` = a recorder.  Every resumption of `run`, token hand-off, ACK and timer
expiry is replayed through the sender LTS whose window rules are the *generated* definitions
(`OnlVerif/Generated/TcpCC.lean`, re-derived from the source by `prepare`), and `cwnd, ssthresh, rto, rtt_estimate,
est_deviation, next_seq, send_buffer, last_ack, dupack`, timers, in-flight stamps, CUBIC's variables and the emitted
segments are compared bit for bit after each event.  The direct oracle recomputes the textbook rules in Python from
the observed before/after states.
"""
import collections, json, random

from harness import tcpsim
from harness.tcpsim import Environment, Packet, Recorder, SenderRun, make_cc, first_diff, explain_diff, quiet, INF
from harness.c16 import model_batch, load_replay
from vlib.util import run_driver, split_cases

ASSUMPTIONS = [
    'TCPReno from any initial cwnd >= MSS and ssthresh >= 0 (cc.mss > 0); TCPCubic from its constructor defaults (its constructor ignores its arguments)',
    'observation points are after each ACK / timer event / resumption of run (the property\'s observe_at)',
    'RTT samples are non-negative; ACK packets carry flow_id >= 10000; flow.finish_time = inf; out attached',
    'theorems are over exact rationals (Q); the executable definitions run at IEEE double and are compared bit for bit with the implementation; '
    '(t - K) ** 3 is the C library pow on both sides',
    'CUBIC\'s cube root (x ** (1.0/3)) is outside exact arithmetic: the generated .safe function is false on that path and C17.cubic_growth proves it unreachable (W_last_max is never non-zero)',
    'the window theorems are about the definitions py2lean generates from the current source; the translator is trusted and cross-checked by this replay',
]
TRUSTED_EXTRA = ['py2lean/translate.py (AST subset translator), hand-written schema of the CongestionControl / estimator fields',
                 'labelling of kernel steps of the sender from taps and public snapshots (harness/tcpsim.py)']
MSS = 512

def prepare(ctx):
    from py2lean import translate
    translate.regenerate_all(only=('TcpCC',))


# ---- scripts ----------------------------------------------------------------------------------------------------

def gen_case(rng):
    kind = rng.choice(['reno', 'reno', 'cubic'])
    ccmss = 512 if rng.random() < 0.85 else rng.choice([256, 1000, 1460])
    cwnd = rng.choice([1, 1, 2, 4, 10, 64, rng.uniform(1, 40)]) * ccmss
    if rng.random() < 0.3:
        cwnd = float(cwnd) + rng.choice([0.0, 0.5, 100.25])
    ssthresh = rng.choice([0, 100, ccmss, 2 * ccmss, 4096, 65535, 65535, 10 ** 9, rng.uniform(0, 30000)])
    rtt = rng.choice([1.0, 1.0, 0.2, 0.05, 2.5, round(rng.uniform(0.01, 3.0), 3)])
    seg = ccmss if kind == 'reno' else MSS          # the sender segments at its congestion controller's MSS
    size = None if rng.random() < 0.7 else rng.randint(1, 60) * seg
    if size is None and (ssthresh > 200000 or cwnd > 200000):
        size = rng.randint(20, 400) * seg        # an unbounded flow would fill a window of 10^9 bytes with segments
    n = rng.randint(3, 28)
    script = []
    for _ in range(n):
        r = rng.random()
        gap = rng.choice(['zero', 'tiny', 'tiny', 'small', 'small', 'rtoish', 'long'])
        g = {'zero': 0.0, 'tiny': rng.uniform(0.0005, 0.01), 'small': rng.uniform(0.01, 0.3),
             'rtoish': ('rto', rng.uniform(0.3, 1.6)), 'long': ('rto', rng.uniform(1.0, 3.5))}[gap]
        sample = rng.choice(['stamp', 'stamp', 'zero', 'small', 'est', 'large'])
        if r < 0.55:
            script.append({'op': 'new', 'gap': g, 'k': rng.choice([1, 1, 1, 2, 3, 5, 9]), 'sample': sample,
                           'pid': rng.choice(['inorder', 'inorder', 'outstanding', 'odd']),
                           'beyond': rng.random() < 0.1})
        elif r < 0.85:
            script.append({'op': 'dup', 'gap': g, 'run': rng.choice([1, 2, 3, 3, 4, 5, 8, 14]), 'sample': sample,
                           'spacing': rng.choice([0.0, 0.001, 0.02])})
        elif r < 0.95:
            script.append({'op': 'idle', 'gap': ('rto', rng.uniform(0.8, 4.5))})
        else:
            script.append({'op': 'odd', 'gap': g, 'sample': sample, 'how': rng.choice(['back', 'unaligned', 'far'])})
    if rng.random() < 0.2:
        # a loss that fast retransmit does not repair: three or more duplicates of one ACK, then silence until retransmission
        # timers run out (once or several times), then MORE duplicates of the same ACK before any new one - "further duplicates
        # add one MSS each" holds for every duplicate beyond the third until the next new ACK, timer expiries in between or not
        at = rng.randint(0, len(script))
        burst = [{'op': 'dup', 'gap': rng.choice([0.0, rng.uniform(0.0005, 0.01)]), 'run': rng.choice([3, 3, 4, 5, 7]), 'sample': 'stamp',
                  'spacing': rng.choice([0.0, 0.001, 0.02])}]
        for _ in range(rng.choice([1, 1, 2])):
            burst.append({'op': 'idle', 'gap': ('rto', rng.uniform(1.05, 2.6))})
            burst.append({'op': 'dup', 'gap': rng.choice([0.0, rng.uniform(0.0005, 0.01)]), 'run': rng.choice([1, 2, 3, 4, 6, 9]), 'sample': 'stamp',
                          'spacing': rng.choice([0.0, 0.001, 0.02])})
        if at > 0 and rng.random() < 0.7:
            # outstanding data first (a new ACK opens the window; the segments sent then are the ones whose timers expire)
            burst.insert(0, {'op': 'new', 'gap': rng.uniform(0.01, 0.3), 'k': 1, 'sample': 'stamp', 'pid': 'inorder', 'beyond': False})
        script[at:at] = burst
    return {'kind': kind, 'ccmss': ccmss, 'cwnd': cwnd, 'ssthresh': ssthresh, 'rtt_estimate': rtt, 'size': size,
            'script': script}


def gen_paced(rng):
    """an application that hands data to TCP at its own pace (`Flow.arrival_dist` / `size_dist`): the sender process
    then waits *inside* its loop, between looking at the window and sending, so ACKs, duplicate ACKs and timeouts land
    during such waits.  These flows are outside the sender LTS (which models `size`-driven flows); they are run on the
    implementation only and judged by the direct oracle (window test at the moment of sending, window rules)."""
    c = gen_case(rng)
    c['size'] = None
    c['ccmss'] = 512
    c['cwnd'] = rng.choice([1, 2, 4, 4, 8, 16]) * 512
    w = rng.choice([1.0, 0.5, 0.25, round(rng.uniform(0.05, 2.0), 2)])
    c['arrival'] = rng.choice([[w], [w], [w, 0.0], [w, 0.0, 0.0, 2 * w], [0.0, 0.0, 3 * w]])
    c['sizes'] = rng.choice([[512], [512], [1024], [512, 1536], [300, 212, 512], [2048]])
    return c


ASSUMPTIONS.append('groups: in about a quarter of the histories a second (sometimes a third) sender with its own congestion-control object of the same class '
                   '(Reno: other MSS / initial cwnd / ssthresh), its own ACK script and its own recorder runs in the same Environment, mostly under the '
                   'same flow id; every sender is replayed through the sender LTS as a case of its own (application-paced ones are oracle-only) and '
                   'judged by the window oracle on its own events only')


def gen_group(rng):
    """a sender under a scripted ACK history and, in about a quarter of the cases, one or two PEER senders in the same Environment,
    each with its own congestion-control object of the same class, its own window, estimator, timers and script: the window
    and RTO rules speak of one connection's state."""
    c = gen_case(rng)
    if rng.random() < 0.75:
        return c
    c['peers'] = []
    for j in range(rng.choice([1, 1, 1, 2])):
        p = gen_paced(rng) if rng.random() < 0.2 else gen_case(rng)
        if p['kind'] != c['kind']:
            p['kind'] = c['kind']                                # (cwnd was drawn as a multiple of ccmss: still >= one MSS)
            if p['size'] is not None and not p.get('arrival'):
                seg = p['ccmss'] if p['kind'] == 'reno' else MSS
                p['size'] = max(1, p['size'] // seg) * seg       # the flow size stays a whole number of the sender's segments
        p['flow_id'] = 0 if rng.random() < 0.6 else j + 1
        p['first'] = rng.random() < 0.3
        c['peers'].append(p)
    return c


def run_impl(case):
    """returns (SenderRun, ended) of the sender under test; the SenderRuns of its peers are in `.peer_runs`"""
    env = Environment()
    peers = case.get('peers') or []
    dones = [[INF] for _ in range(1 + len(peers))]
    built = {j: build_sender(env, p, dones[j + 1]) for j, p in enumerate(peers) if p.get('first')}
    sr = build_sender(env, case, dones[0])
    for j, p in enumerate(peers):
        if j not in built:
            built[j] = build_sender(env, p, dones[j + 1])
    sr.peer_runs = [built[j] for j in range(len(peers))]
    ended = sr.run(horizon=lambda: max(d[0] for d in dones), budget=200000, peers=sr.peer_runs)
    return sr, ended


def units(i, c, sr):
    """[(key, label, sub-case, SenderRun)]: the sender under test and the peers of its group"""
    out = [(str(i), '', c, sr)]
    peers = c.get('peers') or []
    for j, (pc, pr) in enumerate(zip(peers, sr.peer_runs)):
        cfg = {k: pc[k] for k in ('ccmss', 'cwnd', 'ssthresh', 'size', 'flow_id') if k in pc}
        out.append((f'{i}.p{j + 1}', f'sender {j + 2} of {len(peers) + 1} in one Environment ({pc["kind"]}, {cfg}): ', pc, pr))
    return out


def build_sender(env, case, done):
    rec = Recorder()
    cc = make_cc(case['kind'], case['ccmss'], case['cwnd'], case['ssthresh'])
    sr = SenderRun(env, case['kind'], cc, case['rtt_estimate'], case['size'], rec,
                   arrival=case.get('arrival'), sizes=case.get('sizes'), flow_id=case.get('flow_id', 0))
    s = sr.sender
    rng = random.Random(json.dumps(case['script'], sort_keys=True))   # resolves 'outstanding' / 'odd' choices

    def gap_of(g):
        # pauses relative to the current RTO (so that timers expire), capped to keep the clock in a sane range
        return g if not isinstance(g, (list, tuple)) else min(g[1] * s.rto, 600.0)

    def ptime(mode, pid):
        now = env.now
        if mode == 'stamp' and pid in s.sent_packets:
            return s.sent_packets[pid].time
        if mode == 'zero':
            return now
        if mode == 'small':
            return now - min(now, 0.013)
        if mode == 'large':
            return now - min(now, 7.5)
        return now - min(now, s.rtt_estimate if s.rtt_estimate > 0 else 0.1)

    def mk(ackno, pid, mode):
        a = Packet(ptime(mode, pid), 40, pid, flow_id=10000)
        a.ack = ackno
        return a

    def driver():
        MSS = s.mss          # the sender's segment size (public attribute)
        for st in case['script']:
            g = gap_of(st['gap'])
            if g > 0:
                yield env.timeout(g)
            if st['op'] == 'new':
                outstanding = max(0, (s.next_seq - s.last_ack) // MSS)
                k = st['k'] if st['beyond'] or outstanding == 0 else max(1, min(st['k'], outstanding))
                ackno = s.last_ack + k * MSS
                if st['pid'] == 'inorder':
                    pid = ackno - MSS
                elif st['pid'] == 'outstanding' and s.sent_packets:
                    pid = rng.choice(list(s.sent_packets))
                else:
                    pid = rng.choice([0, ackno, ackno + MSS, 7, s.next_seq])
                sr.put(mk(ackno, pid, st['sample']))
            elif st['op'] == 'dup':
                for j in range(st['run']):
                    if j and st['spacing'] > 0:
                        yield env.timeout(st['spacing'])
                    pid = s.last_ack + (j + 1) * MSS
                    sr.put(mk(s.last_ack, pid, st['sample']))
            elif st['op'] == 'odd':
                if st['how'] == 'back':
                    ackno = max(0, s.last_ack - MSS * rng.randint(1, 3))
                elif st['how'] == 'unaligned':
                    ackno = s.last_ack + rng.randint(1, 1500)
                else:
                    ackno = s.next_seq + MSS * rng.randint(1, 50)
                sr.put(mk(ackno, rng.choice([0, ackno, s.last_ack]), st['sample']))
        done[0] = env.now

    env.process(driver())
    sr.peer_runs = []
    return sr


# ---- the textbook rules, recomputed from the observed before/after states ---------------------------------------------

def close(a, b):
    try:
        a, b = float(a), float(b)
    except Exception:
        return False
    return a == b or abs(a - b) <= 1e-9 * max(1.0, abs(a), abs(b))


def cubic_expect(c, cw, ss, mss, rtt, now):
    """CUBIC per Ha/Rhee/Xu (2008), window update on an ACK; c: dict of the object's variables before the ACK.
    Returns (cwnd, variables) after it."""
    c = dict(c)
    c['d_min'] = min(c['d_min'], rtt) if c['d_min'] > 0 else rtt
    if cw <= ss:
        return cw + mss, c
    c['ack_cnt'] += 1
    if c['epoch_start'] <= 0:
        c['epoch_start'] = now
        if cw < c['W_last_max']:
            return None, c           # cube root: never reached from the defaults
        c['K'] = 0
        c['origin_point'] = cw
        c['ack_cnt'] = 1
        c['W_tcp'] = cw
    t = now + c['d_min'] - c['epoch_start']
    target = c['origin_point'] + c['C'] * (t - c['K']) ** 3
    c['cnt'] = cw / (target - cw) if target > cw else 100 * cw
    if c['tcp_friendliness']:
        c['W_tcp'] += 3 * c['beta'] / (2 - c['beta']) * (c['ack_cnt'] / cw)
        c['ack_cnt'] = 0
        if c['W_tcp'] > cw:
            c['cnt'] = min(c['cnt'], cw / (c['W_tcp'] - cw))
    if c['cwnd_cnt'] > c['cnt']:
        cw += mss
        c['cwnd_cnt'] = 0
    else:
        c['cwnd_cnt'] += 1
    return cw, c


def oracle(case, sr, hist):
    fails = []
    mss = case['ccmss'] if case['kind'] == 'reno' else 512
    MSS = sr.sender.mss      # the sender's segment size

    def bad(what, sig, r):
        fails.append({'what': f'{what} [event `{r["line"]}`; before cwnd={r["before"]["cwnd"]} ssthresh={r["before"]["ssthresh"]} '
                              f'dup={r["before"]["dup"]} rto={r["before"]["rto"]}; after cwnd={r["after"]["cwnd"]} '
                              f'ssthresh={r["after"]["ssthresh"]} dup={r["after"]["dup"]} rto={r["after"]["rto"]}]',
                      'signature': sig})
    # the duplicate count is the oracle's own: the number of consecutive ACK events repeating the acknowledged mark since the last
    # ACK that did not (timer expiries in between do not start a new count: "further duplicates add one MSS each" until the next new ACK)
    ndup, expired = 0, False
    for r in sr.records:
        b, a = r['before'], r['after']
        if fails:
            break
        if r['tag'] == 'F' and ndup > 0:
            expired = True
        if not (a['cwnd'] >= mss):
            bad(f'cwnd fell below one MSS ({a["cwnd"]} < {mss})', 'cwnd-below-mss', r)
        if r['tag'] == 'W':
            nxt = b['nseq']
            for q, sz, t in r['tx']:
                if sz != MSS or q != nxt:
                    bad(f'new segment {q}/{sz}: not MSS-sized or not consecutive (expected seq {nxt})', 'send-not-consecutive', r)
                if not (q + MSS <= a['buf']):
                    bad(f'new segment {q} sent beyond the buffered data ({a["buf"]})', 'send-beyond-buffer', r)
                if not (q + MSS <= b['lack'] + b['cwnd']):
                    bad(f'new segment {q} sent outside the window: {q}+{MSS} > last_ack {b["lack"]} + cwnd {b["cwnd"]}',
                        'send-outside-window', r)
                nxt = q + sz
                hist['oracle-send-in-window'] += 1
            if r['tx'] and not (a['nseq'] - b['lack'] <= b['cwnd']):
                bad('unacknowledged new data exceeds cwnd after sending', 'send-exceeds-cwnd', r)
        elif r['tag'] == 'F':
            seq = int(r['line'].split()[2])
            hist['oracle-timeout'] += 1
            if not close(a['cwnd'], mss):
                bad(f'after a retransmission timeout cwnd = {a["cwnd"]}, wanted one MSS', 'timeout-cwnd', r)
            if not close(a['rto'], 2 * b['rto']):
                bad(f'after a retransmission timeout rto = {a["rto"]}, wanted {2 * b["rto"]}', 'timeout-rto', r)
            if [q for q, sz, t in r['tx']] != [seq]:
                bad(f'timeout of segment {seq} retransmitted {[q for q, sz, t in r["tx"]]}', 'timeout-no-retransmit', r)
        elif r['tag'] == 'A':
            _, _, fid, ackno, pid, pt = r['line'].split()
            ackno, pid = int(ackno), int(pid)
            sample = r['now'] - tcpsim_unbits(pt)
            if ackno < b['lack']:
                # An ACK below the acknowledged mark was overtaken on the return path by a later cumulative ACK: it is neither a
                # "new ACK" nor a "duplicate ACK" of the window law, so none of its rules applies - the window, the duplicate
                # count, the RTT estimator / RTO (no sample is taken from it) and "the last acknowledged byte" of the send guard
                # stay as they are and nothing is (re)transmitted.  It does not interrupt a run of duplicates either (the
                # oracle's own count `ndup` is left alone).
                hist['oracle-overtaken-ack-ignored'] += 1
                same = all(close(a[k], b[k]) for k in ('cwnd', 'ssthresh', 'rto', 'srtt', 'dev')) and a['dup'] == b['dup'] \
                    and a['lack'] == b['lack'] and a['nseq'] == b['nseq']
                if not same or r['tx']:
                    bad(f'ACK {ackno} below the acknowledged mark {b["lack"]} (overtaken by a later cumulative ACK) is neither a new nor a '
                        f'duplicate ACK, but it changed the sender: last_ack {b["lack"]} -> {a["lack"]}, cwnd {b["cwnd"]} -> {a["cwnd"]}, '
                        f'dupack {b["dup"]} -> {a["dup"]}, rto {b["rto"]} -> {a["rto"]}, transmitted {[q for q, sz, t in r["tx"]]}',
                        'overtaken-ack-changed-sender', r)
            elif ackno == b['lack']:
                ndup += 1
                n = ndup
                if expired and n > 3:
                    hist['oracle-dupacks-beyond-the-third-after-a-timeout'] += 1
                if n > 3 and a['dup'] != n and (not close(a['cwnd'], b['cwnd'] + mss) or not close(a['ssthresh'], b['ssthresh'])):
                    bad(f'duplicate ACK #{n} of {ackno} since the last new ACK{" (retransmission timers expired in between)" if expired else ""}: '
                        f'further duplicates add one MSS each, wanted cwnd {b["cwnd"] + mss} and ssthresh unchanged; the sender counts it as duplicate #{a["dup"]}',
                        'more-dupacks-window', r)
                    break
                if a['dup'] != n:
                    bad(f'duplicate ACK counted {a["dup"]}, wanted {n} (it is consecutive ACK #{n} of {ackno} since the last new ACK'
                        f'{"; retransmission timers expired in between" if expired else ""})', 'dup-count', r)
                if n == 3:
                    hist['oracle-third-dupack'] += 1
                    ss = max(2 * mss, b['cwnd'] / 2)
                    if not close(a['ssthresh'], ss) or not close(a['cwnd'], ss + 3 * mss):
                        bad(f'third duplicate ACK: wanted ssthresh {ss}, cwnd {ss + 3 * mss}', 'third-dupack-window', r)
                    want = [ackno] if ackno in dict(b['sent']) else []
                    if [q for q, sz, t in r['tx']] != want:
                        bad(f'third duplicate ACK retransmitted {[q for q, sz, t in r["tx"]]}, wanted {want}', 'third-dupack-retransmit', r)
                elif n > 3:
                    hist['oracle-more-dupacks'] += 1
                    if not close(a['cwnd'], b['cwnd'] + mss) or not close(a['ssthresh'], b['ssthresh']):
                        bad(f'duplicate ACK #{n}: wanted cwnd {b["cwnd"] + mss}', 'more-dupacks-window', r)
                else:
                    if not close(a['cwnd'], b['cwnd']) or not close(a['ssthresh'], b['ssthresh']):
                        bad(f'duplicate ACK #{n} changed the window', 'early-dupack-window', r)
                if not (close(a['rto'], b['rto']) and close(a['srtt'], b['srtt']) and close(a['dev'], b['dev'])):
                    bad('a duplicate ACK changed the RTT estimator', 'dupack-estimator', r)
            else:
                ndup, expired = 0, False
                # deflation to ssthresh only when fast recovery was entered (third duplicate seen); after one or two
                # duplicates a new ACK is a plain new ACK
                cw0 = b['ssthresh'] if b['dup'] >= 3 else b['cwnd']
                if b['dup'] >= 3:
                    hist['oracle-new-ack-after-dupacks'] += 1
                elif b['dup'] > 0:
                    hist['oracle-new-ack-after-1-or-2-dupacks-plain'] += 1
                if case['kind'] == 'reno':
                    if cw0 <= b['ssthresh']:
                        cw = cw0 + mss
                        hist['oracle-slow-start'] += 1
                    else:
                        cw = cw0 + mss * mss / cw0
                        hist['oracle-congestion-avoidance'] += 1
                    if not close(a['cwnd'], cw):
                        bad(f'new ACK after {b["dup"]} duplicate ACKs: cwnd {a["cwnd"]}, the Reno rule gives {cw} (from {cw0})',
                            'reno-new-ack' if b['dup'] == 0 or b['dup'] >= 3 else 'new-ack-after-1-2-dupacks', r)
                else:
                    names = tcpsim.CUBIC_FIELDS
                    cb = dict(zip(names, b['cubic']))
                    cw, ce = cubic_expect(cb, cw0, b['ssthresh'], mss, sample, r['now'])
                    hist['oracle-cubic-' + ('slow-start' if cw0 <= b['ssthresh'] else 'growth')] += 1
                    ca = dict(zip(names, a['cubic']))
                    if cw is None or not close(a['cwnd'], cw):
                        bad(f'new ACK after {b["dup"]} duplicate ACKs: cwnd {a["cwnd"]}, the CUBIC rule gives {cw} (from {cw0})',
                            'cubic-new-ack' if b['dup'] == 0 or b['dup'] >= 3 else 'new-ack-after-1-2-dupacks', r)
                    else:
                        for f in ('cnt', 'W_tcp', 'K', 'origin_point', 'epoch_start', 'd_min', 'cwnd_cnt', 'ack_cnt'):
                            if not close(ca[f], ce[f]):
                                bad(f'new ACK: CUBIC variable {f} = {ca[f]}, the rule gives {ce[f]}', 'cubic-variables', r)
                                break
                if not close(a['ssthresh'], b['ssthresh']):
                    bad('a new ACK changed ssthresh', 'new-ack-ssthresh', r)
                err = sample - b['srtt']
                srtt = b['srtt'] + err / 8
                dev = b['dev'] + (abs(err) - b['dev']) / 4
                hist['oracle-rto-formula'] += 1
                if not (close(a['srtt'], srtt) and close(a['dev'], dev) and close(a['rto'], srtt + 4 * dev)):
                    bad(f'new ACK with RTT sample {sample}: srtt/dev/rto = {a["srtt"]}/{a["dev"]}/{a["rto"]}, wanted '
                        f'{srtt}/{dev}/{srtt + 4 * dev}', 'rto-formula', r)
                if a['lack'] != ackno or a['dup'] != 0:
                    bad(f'new ACK {ackno}: last_ack {a["lack"]}, dupack {a["dup"]}', 'new-ack-mark', r)
    return fails


def tcpsim_unbits(s):
    from vlib.util import unbits
    return unbits(int(s))


def nontrivial(sr):
    tags = collections.Counter()
    for r in sr.records:
        if r['tag'] == 'F':
            tags['F'] += 1
        if r['tag'] == 'A' and r['after']['dup'] == 3:
            tags['D3'] += 1
        if r['tag'] == 'A' and r['after']['dup'] == 0 and r['before']['cwnd'] > r['before']['ssthresh']:
            tags['CA'] += 1
    return (tags['F'] or tags['D3']) and tags['CA']


def run(ctx):
    rng = random.Random(f'C17-{ctx.seed}')
    if ctx.replay:
        cases = load_replay(ctx.replay)
    else:
        n = 1000 if ctx.quick else 30000
        cases = [gen_group(rng) for _ in range(n)]
        cases += [gen_paced(rng) for _ in range(n // 4)]
    disagreements, oracle_failures = [], []
    hist = collections.Counter()
    samples = []
    distinct = set()
    lines_compared = 0
    again = 0
    CH = 1500
    for base in range(0, len(cases), CH):
        chunk = list(enumerate(cases[base:base + CH], base))
        runs = {i: run_impl(c) for i, c in chunk}
        allu = [(key, label, uc, c, ur, runs[i][1]) for i, c in chunk for key, label, uc, ur in units(i, c, runs[i][0])]
        model = model_batch('tcpsender', [ur.text(key) for key, label, uc, c, ur, _ in allu if not uc.get('arrival')], 300)
        for key, label, c, top, sr, ended in allu:
            m = model.get(key)
            lines_compared += len(sr.trace)
            hist['kind-' + c['kind']] += 1
            if label:
                hist['peer-senders'] += 1
                hist['peer-senders-same-flow-id'] += 1 if c.get('flow_id', 0) == 0 else 0
            elif top.get('peers'):
                hist['histories-with-peer-senders'] += 1
            for r in sr.records:
                hist['ev-' + r['tag']] += 1
                if r['tx']:
                    hist['tx-' + ('new' if r['tag'] == 'W' else 'resend')] += len(r['tx'])
            if sr.error:
                hist['impl-raised-' + (type(sr.error[1]).__name__ if sr.error[1] is not None else 'budget')] += 1
            if c.get('arrival'):
                hist['paced-flow-oracle-only'] += 1
            elif sr.trace != m:
                d = first_diff(sr.trace, m)
                disagreements.append({'case': top,
                                      'detail': f'{label}line {d[0]}: impl `{d[1][:300]}` model `{d[2][:300]}` {explain_diff(d[1], d[2])}',
                                      'impl': sr.lines[:d[0] // 2 + 4] + ['--'] + sr.trace[max(0, d[0] - 3):d[0] + 2],
                                      'model': (m or [])[max(0, d[0] - 3):d[0] + 2]})
            fs = oracle(c, sr, hist)
            if sr.error and sr.error[1] is not None:
                x = sr.error[1]
                fs.append({'what': f'the sender raised {type(x).__name__}: {x} (during {sr.error[0]})',
                           'signature': f'sender-raise-{type(x).__name__}'})
            for f in fs:
                f.update(case=top, trace=sr.lines[:120], what=label + f['what'])
                oracle_failures.append(f)
            if not label and nontrivial(sr):
                distinct.add(json.dumps(top, sort_keys=True))
                if len(samples) < 2 and len(sr.lines) < 40 and not top.get('peers'):
                    samples.append({'case': c, 'events': sr.lines})
        if base == 0 and not ctx.replay:
            # the first histories executed again later in this process: same events, same emitted segments
            for i, c in chunk[:60]:
                again += 1
                sr2, _ = run_impl(c)
                for (key, label, uc, u1), (_, _, _, u2) in zip(units(i, c, runs[i][0]), units(i, c, sr2)):
                    if u1.lines != u2.lines or u1.tx.log != u2.tx.log:
                        d = first_diff(u1.lines, u2.lines) or (0, u1.tx.log[:3], u2.tx.log[:3])
                        oracle_failures.append({'what': f'{label}the same ACK history executed a second time in this process gives another sender history: '
                                                        f'event {d[0]}: first `{d[1]}`, again `{d[2]}`', 'signature': 'sender-second-execution-differs',
                                                'case': c, 'trace': u2.lines[:120]})
                        break
    from py2lean import translate
    cov = {
        'evaluations': len(cases),
        'distinct_nontrivial': len(distinct),
        'rule': 'distinct ACK histories containing at least one loss event (third duplicate ACK or retransmission timeout) and '
                'at least one new ACK in congestion avoidance (cwnd > ssthresh)',
        'samples': samples,
        'traces_validated_against_impl': len(cases) - len({json.dumps(d['case'], sort_keys=True) for d in disagreements}) - sum(1 for c in cases if c.get('arrival')),
        'histories_executed_a_second_time': again,
        'observation_lines_compared': lines_compared,
        'operation_histogram': dict(sorted(hist.items())),
        'translated': translate.TRANSLATED,
        'hand_modelled': ['TCPPacketGenerator.put (dup-ACK dispatch, timer cancellation, token)', 'TCPPacketGenerator.timeout_callback (sequence of effects)',
                          'TCPPacketGenerator.resend_packet', 'TCPPacketGenerator.run (loop around the generated guard)'],
    }
    return {'coverage': cov, 'disagreements': disagreements, 'oracle_failures': oracle_failures}
