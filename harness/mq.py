"""Generic driver for the multi-queue schedulers SP, RR, WRR, DRR (model: lean/OnlVerif/Net/MultiQueue.lean).

The harness runs the REAL scheduler on the real kernel, stepping `env.step()` itself.  Taps record every `put()`
and every `out.put()`; after each kernel step the progress of the server loop and of its sender process is read off
public state (`sched.proc.target`, its `.resource`, `.triggered`, the sender's `.target`) and turned into an
action label for the model.  Labels are hints the model verifies: an action it does not enable is a REJECT, a
different snapshot is a mismatch.  Kernel steps that change nothing of the scheduler (the StorePut events of
per-class stores, token StorePuts while the loop is busy, other processes) carry no label.
"""
import signal, json, collections
from onl.sim import Environment
from onl.packet import Packet
from onl.scheduler import SP, RR, WRR, DRR
from onl.scheduler.monitor import Monitor
from vlib.util import bits, quiet
from harness import construct

INF = float('inf')


class Recorder:
    """recording sink: the `out` of the scheduler under test"""

    def __init__(self, run):
        self.run = run

    def put(self, packet):
        self.run.step_outs.append(packet)
        self.run.in_tx = None
        self.run.departures.append((self.run.env.now, packet))
        self.run.log.append(('dep', self.run.env.now, packet))


def header(c):
    """the CASE line of the driver protocol"""
    h = f"CASE {c['cid']} {c['kind']} {bits(c['rate'])}"
    if c['kind'] == 'rr':
        return h + f" {len(c['flows'])} " + ' '.join(str(f) for f in c['flows'])
    table = c['table']
    if c['kind'] == 'sp' and any(not isinstance(v, int) for _, v in table):
        # priority values that are not whole numbers: the model takes natural-number priorities and uses nothing but their order
        # (and that they are positive), so the table is handed over order-isomorphically as ranks 1, 2, ... (equal values, equal ranks)
        ranks = {v: i + 1 for i, v in enumerate(sorted({v for _, v in table}))}
        table = [[k, ranks[v]] for k, v in table]
    h += f" {len(table)} " + ' '.join(f'{k} {v}' for k, v in table)
    if c['kind'] == 'drr':
        m = c.get('map') or []
        h += f" {len(m)}" + ''.join(f' {f} {k}' for f, k in m)
    return h


def classes_of(c):
    return list(c['flows']) if c['kind'] == 'rr' else [k for k, _ in c['table']]


def class_of_flow(c, f):
    """the class (sub-queue key) a flow is served under"""
    if c['kind'] == 'drr' and c.get('map'):
        return dict(map(tuple, c['map']))[f]
    return f


def build(env, c):
    """the scheduler of case `c`.  `c['ctor'] == 'positional'`: every published constructor parameter is handed over positionally, in the
    published order, `debug=True` included (harness/construct.py; DESIGN section 3: such a call is an ordinary input, all clauses hold
    for it).  Callers swallow stdout (`quiet()`); construction style is not an input of the model: the replay is the same."""
    kind, rate = c['kind'], c['rate']
    m = dict(map(tuple, c['map'])) if c.get('map') else None
    style = 'positional' if c.get('ctor') == 'positional' else 'legacy'
    f2c = {'flow2class': (lambda fid: m[fid])} if m else {}
    if kind == 'sp':
        return construct.build(SP, dict(env=env, rate=rate, priorities=dict(map(tuple, c['table'])), **f2c), style)
    if kind == 'rr':
        return construct.build(RR, dict(env=env, rate=rate, flows=list(c['flows'])), style)
    if kind == 'wrr':
        return construct.build(WRR, dict(env=env, rate=rate, weights=dict(map(tuple, c['table']))), style)
    if kind == 'drr':
        return construct.build(DRR, dict(env=env, rate=rate, weights=dict(map(tuple, c['table'])), **f2c), style)
    raise ValueError(kind)


class MQRun:
    """one case: produces the action lines for the model (`acts`), the implementation's observation lines (`obs`)
    and the records the direct oracles work on (`log`, `arrivals`, `departures`, `starts`, `samples`)."""

    def __init__(self, env, sched, case):
        self.env, self.sched, self.case = env, sched, case
        self.kind = case['kind']
        self.classes = classes_of(case)
        self.acts, self.obs = [], []
        self.log = []            # ('arr'|'start'|'dep', time, packet) in global action order
        self.arrivals, self.departures, self.starts = [], [], []
        self.samples = []        # (time, included, {flow: (n, bytes)}, truth) truth = ({flow: n, bytes} waiting+tx, packet in service)
        self.step_outs = []
        self.monitors = []
        self.deficit_log = []    # DRR: (time, {class: deficit}) after every labelled action
        sched.out = Recorder(self)
        self._orig_put = sched.put
        sched.put = self._tapped_put
        self.raised = None
        self.counter_fail = []
        self.exhausted = False
        self.in_tx = None        # packet between the start of its transmission and its departure (from the taps)
        self.peers = []          # MQRuns of other scheduler instances living in the same Environment (they may join during the run)

    # -- public-state readers -------------------------------------------------------------------
    def phase(self):
        t = self.sched.proc.target
        name = type(t).__name__
        if name == 'Initialize':
            return 'I'
        if name == 'StoreGet':
            if t.resource is self.sched.packets_available:
                return 'K' if t.triggered else 'W'
            return 'H'
        if name == 'Process':
            if t.triggered:
                return 'F'
            inner = type(t.target).__name__
            return {'Initialize': 'S', 'Timeout': 'T'}.get(inner, '?' + inner)
        return '?' + name

    def snap(self, now=None):
        s = self.sched
        flows = s.all_flows()
        qc = ','.join(f'{f}:{s.size(f)}:{s.byte_size(f)}' for f in flows)
        st = ','.join(f'{c}:{len(s.stores[c].items) if c in s.stores else 0}' for c in self.classes)
        hd = getattr(s, 'head_of_line', {})
        hol = ','.join(f'{c}:{hd[c].packet_id}' for c in self.classes if c in hd)
        cur = s.packet_in_service.packet_id if s.packet_in_service is not None else '-'
        out = (f'qc={qc} tot={s.total_packets} cur={cur} st={st} hol={hol} tok={len(s.packets_available.items)} '
               f'gq={len(s.packets_available.get_queue)} ph={self.phase()} rc={s.packets_received}')
        if self.kind == 'drr':
            out += ' def=' + ','.join(f'{c}:{bits(d)}' for c, d in getattr(s, 'deficit', {}).items())
            out += ' cc=' + ','.join(f'{c}:{n}' for c, n in getattr(s, 'class_count', {}).items())
        now = self.env.now if now is None else now
        return out + f' now={bits(now)}'

    def check_counters(self, where):
        """direct oracle: size()/byte_size()/total_packets against the arrival/departure record"""
        s = self.sched
        held = self.truth()
        for f in s.all_flows():
            n, b = held.get(f, (0, 0))
            if s.size(f) != n or s.byte_size(f) != b:
                self.counter_fail.append(f'{where} at t={self.env.now}: flow {f} size()={s.size(f)} byte_size()={s.byte_size(f)}, '
                                         f'but {n} packets / {b} bytes of it are waiting or in transmission')
        tot = sum(n for n, _ in held.values())
        if s.total_packets != tot:
            self.counter_fail.append(f'{where} at t={self.env.now}: total_packets={s.total_packets}, {tot} packets held')

    def truth(self):
        """packets/bytes per flow that are waiting or in transmission, from the arrival/departure record"""
        held = {}
        gone = {id(p) for _, p in self.departures}
        for _, p in self.arrivals:
            if id(p) not in gone:
                n, b = held.get(p.flow_id, (0, 0))
                held[p.flow_id] = (n + 1, b + p.size)
        return held

    # -- taps -----------------------------------------------------------------------------------
    def _tapped_put(self, packet):
        self._orig_put(packet)
        self.arrivals.append((self.env.now, packet))
        self.log.append(('arr', self.env.now, packet))
        self.acts.append(f'put {packet.packet_id} {packet.flow_id} {packet.size}')
        self.obs.append(f'put acc | {self.snap()}')
        self.check_counters('after put')

    def add_monitor(self, mon, included):
        self.monitors.append([mon, included, 0])

    def _nsamples(self, mon):
        return sum(len(v) for v in mon.sizes.values())

    # -- main loop ------------------------------------------------------------------------------
    def run(self, max_steps=40000):
        """steps the kernel; every scheduler instance of the group (this one and its `peers`, some of which are built
        during the run) reads its own progress off its own public state before and after each kernel step and keeps its
        own action / observation / log streams"""
        env = self.env
        steps = 0
        while env.peek() < INF and steps < max_steps * (1 + len(self.peers)):
            steps += 1
            t = env.peek()
            group = [self] + list(self.peers)
            for g in group:
                g._pre(t)
            with quiet():
                env.step()
            for g in group:
                g._post()
        self.exhausted = steps >= max_steps * (1 + len(self.peers))
        for g in self.peers:
            g.exhausted = self.exhausted
        return self

    def _pre(self, t):
        env, s = self.env, self.sched
        if t > env.now:
            self.acts.append(f'tick {bits(t)}')
            self.obs.append(f'tick - | {self.snap(now=t)}')
        self._before = (s.proc.target, self.phase(), dict(getattr(s, 'head_of_line', {})), dict(getattr(s, 'deficit', {})))
        self.step_outs = []
        for m in self.monitors:
            m[2] = self._nsamples(m[0])

    def _post(self):
        env, s = self.env, self.sched
        tgt0, ph0, hol0, def0 = self._before
        if True:
            tgt1, ph1 = s.proc.target, self.phase()
            label = None
            if ph0 == 'I' and tgt1 is not tgt0:
                label = 'init'
            elif ph0 == 'W' and tgt1 is tgt0 and ph1 == 'K':
                label = 'tokenHandoff'
            elif ph0 == 'K' and tgt1 is not tgt0:
                label = 'wake'
            elif ph0 == 'H' and tgt1 is not tgt0:
                label = 'pktResume'
            elif ph0 == 'S' and tgt1 is tgt0 and ph1 == 'T':
                label = 'sendInit'
            elif ph0 == 'T' and tgt1 is tgt0 and ph1 == 'F':
                label = 'sendFire'
            elif ph0 == 'F' and tgt1 is not tgt0:
                label = 'sendDone'
            if label is not None:
                # markers for the direct oracles: the loop (re)scans its classes in this burst
                if label in ('init', 'wake', 'sendDone'):
                    self.log.append(('scan', env.now, None))
                elif label == 'pktResume':
                    hol1 = getattr(s, 'head_of_line', {})
                    if any(k not in hol0 or hol0[k] is not hol1[k] for k in hol1) or def0 != dict(getattr(s, 'deficit', {})):
                        # the packet in hand was parked and the loop scanned on (a plain send changes neither
                        # `head_of_line` nor any credit)
                        self.log.append(('rescan', env.now, None))
                o = '-'
                if label == 'sendInit':
                    p = s.packet_in_service
                    o = f'start {p.packet_id}' if p is not None else 'start ?'
                    if p is not None:
                        self.starts.append((env.now, p))
                        self.in_tx = p
                        self.log.append(('start', env.now, p))
                elif label == 'sendFire':
                    o = f'dep {self.step_outs[0].packet_id}' if self.step_outs else 'dep ?'
                elif self.step_outs:
                    o = f'UNEXPECTED-OUT {self.step_outs[0].packet_id}'
                self.acts.append(label)
                self.obs.append(f'{label} {o} | {self.snap()}')
                self.check_counters(f'after {label}')
                if self.kind == 'drr':
                    self.deficit_log.append((env.now, label, dict(s.deficit), dict(getattr(s, 'class_count', {}))))
            elif self.step_outs:
                self.acts.append('sendFire')
                self.obs.append(f'UNLABELLED-OUT {self.step_outs[0].packet_id}')
            for m in self.monitors:
                if self._nsamples(m[0]) > m[2]:
                    flows = s.all_flows()
                    vals = {f: (m[0].sizes[f][-1], m[0].byte_sizes[f][-1]) for f in flows if m[0].sizes.get(f)}
                    self.acts.append(f'sample {1 if m[1] else 0}')
                    self.obs.append('sample samples ' + ','.join(f'{f}:{vals[f][0]}:{vals[f][1]}' for f in flows if f in vals)
                                    + f' | {self.snap()}')
                    self.samples.append((env.now, m[1], vals, self.truth(), s.packet_in_service, self.phase(), self.in_tx))


def make_packet(env, pid, flow, size):
    return Packet(env.now, size, pid, src='src', flow_id=flow)


def source(env, run, script, counter):
    """a source process: script = [(delay, [(flow, size), ...]), ...]"""
    for delay, burst in script:
        yield env.timeout(delay)
        for flow, size in burst:
            counter[0] += 1
            run.sched.put(make_packet(env, counter[0], flow, size))


def build_instance(env, c, counter):
    """the scheduler of (sub-)case `c` with its sources and monitors in `env`; returns its MQRun (not yet run)"""
    with quiet():
        sched = build(env, c)
    run = MQRun(env, sched, c)
    pl = c.get('poll')
    if pl:
        # operator / statistics code reading the backlog of every CONFIGURED flow through the public accessors size(), byte_size(),
        # all_flows() - from before the first packet on and between arrivals.  Reading changes nothing the properties speak about.
        run.polls = 0
        def poll_now():
            for f in flows_of(c):
                if pl['what'] in ('size', 'both'):
                    sched.size(f)
                if pl['what'] in ('byte_size', 'both'):
                    sched.byte_size(f)
            sched.all_flows()
            run.polls += 1
        def poller():
            for d in pl['periods']:
                yield env.timeout(d)
                poll_now()
        if pl['at_build']:
            poll_now()
        env.process(poller())
    for flow, size in c.get('pre', []):      # calls of put() before the scheduler's loop has run
        counter[0] += 1
        with quiet():
            sched.put(make_packet(env, counter[0], flow, size))
    for script in c['sources']:
        env.process(source(env, run, script, counter))
    for mc in c.get('monitors', []):
        periods = list(mc['periods'])
        def dist(periods=periods):
            return periods.pop(0) if periods else INF
        mon = Monitor(env, sched, dist, mc['included'])
        run.add_monitor(mon, mc['included'])
    return run


def run_impl(c, budget=20.0):
    if any(uc.get('ctor') == 'positional' for uc in [c] + list(c.get('peers') or [])):
        with construct.swallowed():         # debug=True devices print on every packet: swallowed for the duration of the case
            return _run_impl(c, budget)
    return _run_impl(c, budget)


def _run_impl(c, budget=20.0):
    """run case `c` on the real scheduler - and, next to it in the same Environment, the peer schedulers of its group
    (`c['peers']`: built at the start, or, with `at`, at that simulated instant by a process of the harness); returns the
    MQRun of the scheduler under test (the peers' runs in `.peers`, in the order of `c['peers']`)"""
    env = Environment()
    peers = c.get('peers') or []
    slots = [None] * len(peers)
    def on_alarm(signum, frame):
        raise TimeoutError(f'the scheduler loop did not yield for {budget:g} s of CPU time (it spins)')
    # CPU time of this process, not wall time: a busy machine must not look like a spinning scheduler
    old = signal.signal(signal.SIGPROF, on_alarm)
    # the watchdog keeps firing (every second after the first expiry): with several schedulers in one Environment the exception ends
    # the process of ONE spinning loop (the kernel turns it into that process's failure and raises it from a later step); the next kernel
    # step may enter the loop of another instance that spins as well
    signal.setitimer(signal.ITIMER_PROF, budget, 1.0)
    run = None
    try:
        def mk(j):
            slots[j] = build_instance(env, peers[j], [0])
            if run is not None:
                run.peers.append(slots[j])
        def later(j):
            yield env.timeout(peers[j]['at'])
            mk(j)
        for j, pc in enumerate(peers):
            if pc.get('first') and not pc.get('at'):
                mk(j)
        run = build_instance(env, c, [0])
        run.peers = [r for r in slots if r is not None]
        for j, pc in enumerate(peers):
            if pc.get('at'):
                env.process(later(j))
            elif not pc.get('first'):
                mk(j)
        run.run()
    except Exception as x:      # the properties say the run never raises
        if run is None:
            raise
        run.raised = f'{type(x).__name__}: {x}'
        run.exhausted = False
    finally:
        signal.setitimer(signal.ITIMER_PROF, 0)
        signal.signal(signal.SIGPROF, old)
    run.peers = []
    for j, pc in enumerate(peers):
        if slots[j] is None:            # never built (the run ended before): an empty record
            slots[j] = MQRun.__new__(MQRun)
            slots[j].__dict__.update(case=pc, kind=pc['kind'], acts=[], obs=[], log=[], arrivals=[], departures=[], starts=[], samples=[],
                                     deficit_log=[], counter_fail=[], raised=None, exhausted=False, peers=[], sched=None)
        if run.raised:
            slots[j].raised, slots[j].exhausted = run.raised, False
        run.peers.append(slots[j])
    return run


def units(c, r):
    """[(label, sub-case, MQRun, replayed through the model?)]: the scheduler under test and the peers of its group"""
    out = [('', c, r, not c.get('poll'))]
    peers = c.get('peers') or []
    for j, (pc, pr) in enumerate(zip(peers, r.peers)):
        tab = pc['flows'] if pc['kind'] == 'rr' else pc['table']
        how = (f'built at t={pc["at"]} from the table of the first' if pc.get('at') else
               f'{"flows" if pc["kind"] == "rr" else "table"} {tab}' + (f' map {pc["map"]}' if pc.get('map') else ''))
        out.append((f'instance {j + 2} of {len(peers) + 1} {pc["kind"].upper()} schedulers in one Environment ({how}): ',
                    dict(pc, cid=f"{c['cid']}.p{j + 1}"), pr, not pc.get('at') and not pc.get('poll')))
    return out


def digest(r):
    """what the properties speak about, for the comparison of two executions of one case"""
    return {'arrivals': [(t, p.packet_id) for t, p in r.arrivals], 'transmission starts': [(t, p.packet_id) for t, p in r.starts],
            'departures': [(t, p.packet_id) for t, p in r.departures],
            'monitor samples': [(t, inc, sorted(vals.items())) for t, inc, vals, *_ in r.samples]}


# ---- case generator --------------------------------------------------------------------------------

def flows_of(c):
    if c['kind'] == 'rr':
        return list(c['flows'])
    return [f for f, _ in c['map']] if c.get('map') else [k for k, _ in c['table']]


def gen_poll(rng, c):
    unit = 0.5 if c['rate'] >= 1000 else 1
    return {'at_build': rng.random() < 0.75, 'what': rng.choice(['size', 'byte_size', 'both', 'both']),
            'periods': [rng.choice([0, 0.25, 0.5, 1, 1, 2, 3]) * unit for _ in range(rng.randint(0, 12))]}


POSITIONAL_SHARE = 0.15


def gen_group(rng, cid, kind, backlog=False, share=0.3, poll=0.0, real_prio=0.0):
    c = _gen_group(rng, cid, kind, backlog, share, real_prio)
    # `poll`: share of the cases in which the harness, like operator code, reads size() / byte_size() / all_flows() of every configured
    # flow before the first arrival and between arrivals (public API).  The accessors are backed by defaultdicts, so a read makes a
    # flow appear in all_flows() (and in Monitor samples, with 0) before its first packet: these instances are outside the replay
    # (the LTS lists flows from their first arrival) and are judged by the direct oracles only.
    if poll and rng.random() < poll:
        c['poll'] = gen_poll(rng, c)
        for pc in c.get('peers') or []:
            if rng.random() < 0.5:
                pc['poll'] = gen_poll(rng, pc)
    # construction style (harness/construct.py): in a share of the cases the scheduler under test - and, independently, each peer - is built
    # with ALL published constructor parameters positional, debug=True among them
    for uc in [c] + list(c.get('peers') or []):
        if rng.random() < POSITIONAL_SHARE:
            uc['ctor'] = 'positional'
    return c


def _gen_group(rng, cid, kind, backlog=False, share=0.3, real_prio=0.0):
    """the scheduler under test and, in a share of the cases, PEER schedulers of the same kind alive in the same Environment:
    (1) one with a DIFFERENT table over the SAME flow ids (SP: mostly the opposite priorities; RR: another declaration order;
    WRR/DRR: other weights / another class map), busy at the same time with its own traffic - replayed through the model as a
    case of its own; (2) now and then a second scheduler built LATER (at a positive simulated instant, while the first one is
    at work) from a table equal to the first one's - outside the replay (the LTS starts at time 0), judged by the direct
    oracles.  The properties speak of ONE scheduler: its table, its queues, its credits."""
    c = gen_case(rng, cid, kind, backlog, real_prio=real_prio)
    if rng.random() >= share:
        return c
    c['peers'] = []
    x = rng.random()
    if x < 0.8:
        p = gen_case(rng, f'{cid}.p1', kind, backlog=rng.random() < 0.5, like=c)
        p['first'] = rng.random() < 0.3            # constructed before the scheduler under test
        c['peers'].append(p)
    if x >= 0.6:
        t = gen_case(rng, f'{cid}.t', kind, backlog=rng.random() < 0.5, like=c)
        for k in ('rate', 'table', 'flows', 'map'):
            if k in c:
                t[k] = json.loads(json.dumps(c[k]))
        unit = 0.5 if c['rate'] >= 1000 else 1
        t['at'] = rng.choice([0.5, 1, 2, 3, 5, 10, 1.5]) * unit
        t['monitors'] = t['monitors'][:1]
        c['peers'].append(t)
    return c


def real_priorities(rng, table):
    """priority tables whose values are not small whole numbers (the scheduler only ever compares them): quarters that share an
    integer part (2.25 / 2.75), values below 1, values beyond 2**31 / 1e9; the order of the listing is independent of the values"""
    mode = rng.choice(['quarters'] * 5 + ['large', 'large', 'mixed', 'mixed', 'below-one'])
    out = []
    for f, p in table:
        if mode == 'quarters':
            v = rng.choice([1, 2, 2, 3]) + rng.choice([0.0, 0.25, 0.5, 0.75])
        elif mode == 'below-one':
            v = rng.choice([0.125, 0.25, 0.5, 0.75, 0.875, 1.0])
        elif mode == 'large':
            v = rng.choice([2.0 ** 31, 1e9, 2.0 ** 40]) + rng.choice([0.25, 0.5, 0.75, 1.0, 2.5]) * rng.choice([1, 1, 3])
        else:
            v = rng.choice([p, p + 0.5, p - 0.25, p * 0.125, 1e6 + p, 2.5, 2.75])
        out.append([f, v])
    return out


def gen_case(rng, cid, kind, backlog=False, like=None, real_prio=0.0):
    """a random configuration + workload for scheduler `kind`; `backlog`: front-load arrivals so that several
    classes stay backlogged for a long stretch; `like`: another case whose flow ids this one shares"""
    c = {'cid': str(cid), 'kind': kind}
    nfl = rng.randint(2, 6)
    flows = rng.sample(range(0, 10), nfl)
    if like is not None:
        flows = flows_of(like)
        rng.shuffle(flows)
        nfl = len(flows)
    big = kind == 'drr' and rng.random() < 0.85
    if big:
        c['rate'] = rng.choice([8000.0, 8000.0, 8000, 1e6, 12000.0])
        sizes = rng.choice([[500, 1000, 1500, 2000, 3000], [100, 1500, 1501, 4000, 64], [1000, 2000, 4500], [1499, 1500, 1501, 3000, 3001]])
        unit = 0.5
    else:
        c['rate'] = rng.choice([8.0, 8.0, 8.0, 64.0, 3.0, 8, 100.0])
        sizes = rng.choice([[1, 2, 3, 5], [1, 1, 2], [1, 2, 3, 5, 10, 40]])
        unit = 1
    c['map'] = None
    if kind == 'sp' and like is not None and rng.random() < 0.6:
        top = max(p for _, p in like['table']) + 1
        c['table'] = [[f, top - p] for f, p in like['table']]        # the opposite order of urgency over the same flow ids
        if rng.random() < 0.5:
            rng.shuffle(c['table'])
    elif kind == 'sp':
        c['table'] = [[f, rng.randint(1, rng.choice([2, 3, 5, 9]))] for f in flows]
        if rng.random() < 0.3:
            c['map'] = [[f, rng.randint(0, 3)] for f in flows]
    elif kind == 'rr':
        c['flows'] = flows
    elif kind == 'wrr':
        c['table'] = [[f, rng.randint(1, 4)] for f in flows]
    else:
        if rng.random() < 0.5:
            c['table'] = [[f, rng.randint(1, 4)] for f in flows]
        else:
            ncl = rng.randint(1, min(4, nfl))
            cls = rng.sample(range(0, 12), ncl)
            c['table'] = [[k, rng.randint(1, 4)] for k in cls]
            c['map'] = [[f, rng.choice(cls)] for f in flows]
    if kind == 'sp' and like is None and real_prio and rng.random() < real_prio:
        c['table'] = real_priorities(rng, c['table'])
    delays = [0, 0, 0, 1, 1, 2, 3, 5, 10, 0.5, 25, 1.5]
    sparse = (not backlog) and rng.random() < 0.25
    if sparse:
        # few packets, sources that wake in the middle of a transmission and put exactly when it ends: arrivals ordered
        # after the departure into an empty system (stale wake-up tokens), idle gaps
        delays = [0.5, 0.5, 1, 1.5, 2, 0, 3.5]
        sizes = sizes[:2]
    c['sources'] = []
    for si in range(rng.randint(2, 3) if sparse else rng.randint(1, 3)):
        script = []
        for k in range(rng.randint(1, 8)):
            d = rng.choice(delays) * unit if rng.random() < 0.9 else round(rng.random() * 20, 3)
            nb = rng.choice([1, 1, 1, 2, 3, 5]) if not sparse else rng.choice([0, 1, 1])
            if backlog and k == 0:
                d, nb = 0, rng.randint(6, 14)
            script.append((d, [(rng.choice(flows), rng.choice(sizes)) for _ in range(nb)]))
        c['sources'].append(script)
    if sparse and rng.random() < 0.5:
        # a chain of packets each of which arrives at the very instant the previous transmission ends, from a source
        # that last woke in the middle of that transmission: ordered after the departure, into an empty system
        tx = lambda z: z * 8.0 / c['rate']
        z = rng.choice(sizes)
        chain, cur = [], z
        for _ in range(rng.randint(1, 4)):
            nz = rng.choice(sizes)
            chain += [(tx(cur) / 2, []), (tx(cur) / 2, [(rng.choice(flows), nz)])]
            cur = nz
        c['sources'] = [[(0, [(rng.choice(flows), z)])], chain]
    if rng.random() < 0.15:
        c['pre'] = [(rng.choice(flows), rng.choice(sizes)) for _ in range(rng.randint(1, 3))]
    c['monitors'] = []
    for _ in range(rng.choice([0, 0, 1, 1, 2])):
        c['monitors'].append({'included': rng.random() < 0.5,
                              'periods': [rng.choice([0.5, 1, 3, 7.25, 0, 0.25]) * unit for _ in range(rng.randint(1, 30))]})
    return c


def replay(cases):
    """run the cases on the implementation and through the model; returns (runs, model outputs, disagreements).
    The peer schedulers of a group that were built at the start are replayed as cases of their own (`<cid>.p<j>`)."""
    from vlib.util import run_driver, split_cases
    runs, text = {}, []
    stuck = 0
    for i, c in enumerate(cases):
        r = run_impl(c, budget=20.0 if stuck == 0 else 8.0)      # CPU seconds; generous: CPU time inflates several-fold on a loaded machine
        runs[c['cid']] = r
        for _, uc, ur, replayed in units(c, r):
            if replayed:
                text.append(header(uc)); text += ur.acts; text.append('END')
        if r.exhausted or (r.raised or '').startswith('TimeoutError'):
            stuck += 1
            if stuck >= 6:
                # the scheduler under test spins or never comes to rest, case after case: each such case costs seconds of
                # CPU, the finding is established - the remaining cases are not run (the list is cut in place)
                del cases[i + 1:]
                break
    model = split_cases(run_driver('mq', '\n'.join(text) + '\n'))
    dis = []
    for c in cases:
        for label, uc, ur, replayed in units(c, runs[c['cid']]):
            if not replayed:
                continue
            a, b = ur.obs, model.get(uc['cid'])
            if a != b:
                b = b or []
                i = next((i for i in range(max(len(a), len(b))) if i >= len(a) or i >= len(b) or a[i] != b[i]), 0)
                dis.append({'case': c, 'detail': f'{label}line {i} (action `{ur.acts[i] if i < len(ur.acts) else None}`): '
                                                 f'impl `{a[i] if i < len(a) else None}` model `{b[i] if i < len(b) else None}`',
                            'impl': a[max(0, i - 20):i + 5], 'model': b[max(0, i - 20):i + 5]})
    return runs, model, dis


# ---- shared evaluation loop of the checks C12 (multi-queue half), C13, C15 -----------------------------------------

def coincidences(run):
    """arrivals at the very instant a transmission ends: (ordered before the departure, ordered after it)"""
    dep_pos = {}
    for i, (ev, t, p) in enumerate(run.log):
        if ev == 'dep':
            dep_pos.setdefault(t, []).append(i)
    before = after = 0
    for i, (ev, t, p) in enumerate(run.log):
        if ev == 'arr' and t in dep_pos:
            if any(i < j for j in dep_pos[t]):
                before += 1
            if any(i > j for j in dep_pos[t]):
                after += 1
    return before, after


EVAL_CHUNK = 2500             # cases whose runs (environments, schedulers, traces) are alive at a time


def evaluate(cases, oracles, nontrivial, rule, again_n=40):
    """replay `cases` through implementation and model, apply the direct `oracles` (functions (case, run) -> (fails, stats) or
    fails); returns the dict a check's run(ctx) returns.  Long case lists are evaluated chunk by chunk (memory), the partial
    results added up; the second execution of the first cases happens at the end of the first chunk."""
    if len(cases) <= EVAL_CHUNK:
        return _evaluate(cases, oracles, nontrivial, rule, again_n, set())
    distinct, total = set(), None
    for i in range(0, len(cases), EVAL_CHUNK):
        part = cases[i:i + EVAL_CHUNK]
        n0 = len(part)
        r = _evaluate(part, oracles, nontrivial, rule, again_n if i == 0 else 0, distinct)
        if total is None:
            total = r
        else:
            ct, cr = total['coverage'], r['coverage']
            for k in ('evaluations', 'distinct_nontrivial', 'traces_validated_against_impl', 'cases_executed_a_second_time', 'action_lines_replayed'):
                ct[k] += cr[k]
            ct['samples'] = (ct['samples'] + cr['samples'])[:2]
            h = collections.Counter(ct['operation_histogram']); h.update(cr['operation_histogram'])
            ct['operation_histogram'] = dict(sorted(h.items()))
            st = dict(ct['oracle_statistics'])
            for k, v in cr['oracle_statistics'].items():
                st[k] = max(st.get(k, v), v) if (isinstance(v, float) or k.startswith('max')) else st.get(k, 0) + v
            ct['oracle_statistics'] = dict(sorted(st.items()))
            total['disagreements'] += r['disagreements']
            total['oracle_failures'] += r['oracle_failures']
        if len(part) < n0:
            break               # the list was cut short: the scheduler under test spins case after case (see `replay`)
    return total


def _evaluate(cases, oracles, nontrivial, rule, again_n, distinct):
    runs, model, dis = replay(cases)
    orc, hist, stats_sum = [], collections.Counter(), collections.Counter()
    nontriv, samples = 0, []
    for c in cases:
        r = runs[c['cid']]
        for l in r.acts:
            hist['act:' + l.split(' ')[0]] += 1
        hist['kind:' + c['kind']] += 1
        if c.get('map'):
            hist['with flow2class map'] += 1
        if c.get('pre'):
            hist['put before the loop started'] += 1
        if c.get('ctor') == 'positional':
            hist['built fully positionally in the published parameter order, debug=True (stdout swallowed)'] += 1
        hist['peer schedulers: built fully positionally'] += sum(1 for pc in c.get('peers') or [] if pc.get('ctor') == 'positional')
        if c.get('poll'):
            hist['polled through size()/byte_size()/all_flows() (oracle-only)'] += 1
            hist['polls'] += getattr(r, 'polls', 0)
        if c['kind'] == 'sp' and any(not isinstance(v, int) for _, v in c['table']):
            hist['sp: priority values that are not whole numbers (replayed as ranks)'] += 1
        hist['monitors'] += len(c.get('monitors', []))
        hist['monitor samples'] += len(r.samples)
        b, a = coincidences(r)
        hist['arrival at a transmission end, before the departure'] += b
        hist['arrival at a transmission end, after the departure'] += a
        hist['idle periods ended by a wake-up token'] += sum(1 for l in r.acts if l == 'tokenHandoff')
        hist['stale-token wakes'] += max(0, sum(1 for l in r.acts if l == 'wake') - sum(1 for l in r.acts if l == 'tokenHandoff'))
        times = collections.Counter(t for t, _ in r.arrivals)
        hist['same-instant bursts'] += sum(1 for v in times.values() if v > 1)
        st_case = {}
        for o in oracles:
            res = o(c, r)
            fails, st = res if isinstance(res, tuple) else (res, {})
            for k, v in st.items():
                st_case[k] = v
                if isinstance(v, float) or k.startswith('max'):
                    stats_sum[k] = max(stats_sum[k], v)
                else:
                    stats_sum[k] += v
            for f in fails:
                f['case'] = c
                f['trace'] = r.obs[:300]
                orc.append(f)
        # the other schedulers of the group: each judged by the same oracles on its own history only
        for label, uc, ur, replayed in units(c, r)[1:]:
            hist['peer schedulers: ' + ('built later from an equal table (oracle-only)' if uc.get('at') else 'other table over the same flow ids (replayed)')] += 1
            hist['peer schedulers: packets transmitted'] += len(ur.departures)
            hist['peer schedulers: monitor samples'] += len(ur.samples)
            for o in oracles:
                res = o(uc, ur)
                fails, st = res if isinstance(res, tuple) else (res, {})
                for k in ('multi_level_decisions', 'multi_class_decisions'):
                    if st.get(k):
                        hist[f'peer schedulers: {k}'] += st[k]
                for f in fails:
                    f['what'] = label + f['what']
                    f['case'] = c
                    f['trace'] = ur.obs[:300]
                    orc.append(f)
        if c.get('peers'):
            hist['cases with peer schedulers in the same Environment'] += 1
        key = json.dumps({k: v for k, v in c.items() if k != 'cid'}, sort_keys=True, default=str)
        nt = nontrivial(c, r, st_case, (b, a))
        if nt and key not in distinct:
            nontriv += 1
            if len(samples) < 2:
                samples.append({'config': {k: v for k, v in c.items() if k not in ('sources',)}, 'sources': c['sources'],
                                'actions': r.acts[:40]})
        distinct.add(key)
    # the same cases executed again later in this process (fresh Environment, tables built anew from equal contents): arrivals,
    # transmission starts, departures and Monitor samples are functions of the configuration and the workload
    again = 0
    for c in cases[:again_n]:
        r1 = runs[c['cid']]
        if r1.exhausted or (r1.raised or '').startswith('TimeoutError'):
            continue                    # a case on which the loop spins (reported above) is not run a second time: it costs seconds of CPU
        r2 = run_impl(c)
        again += 1
        for (label, uc, u1, _), (_, _, u2, _) in zip(units(c, r1), units(c, r2)):
            d1, d2 = digest(u1), digest(u2)
            if d1 != d2 or u1.raised != u2.raised:
                k = next((k for k in d1 if d1[k] != d2[k]), 'outcome')
                orc.append({'what': f'{uc["kind"]}: {label}the same case executed a second time in this process (after {len(cases)} other cases) gives other {k}: '
                                    f'first {str(d1.get(k, u1.raised))[:200]}, again {str(d2.get(k, u2.raised))[:200]}',
                            'signature': f'{uc["kind"]}-second-execution-differs', 'case': c, 'trace': u2.obs[:300]})
                break
    cov = {'evaluations': len(cases), 'distinct_nontrivial': nontriv, 'rule': rule, 'samples': samples,
           'traces_validated_against_impl': len(cases) - len({d['case']['cid'] for d in dis}),
           'cases_executed_a_second_time': again,
           'action_lines_replayed': sum(len(ur.acts) for c in cases for _, _, ur, rp in units(c, runs[c['cid']]) if rp),
           'operation_histogram': dict(sorted(hist.items())), 'oracle_statistics': dict(sorted(stats_sum.items()))}
    return {'coverage': cov, 'disagreements': dis, 'oracle_failures': orc}


def cases_from_replay(path):
    j = json.load(open(path))
    if j.get('case'):
        return [j['case']]
    return [d['case'] for d in j.get('broken_correspondence', []) if d.get('case')]
