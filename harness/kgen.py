"""Seeded generators of kernel script cases (structured, mostly valid, plus a malformed stream)."""
import random
from harness.kscript import Case

DYADIC = [0, 0, 0.25, 0.5, 0.5, 1, 1, 2]
EXCS = ['ValueError', 'KeyError', 'RuntimeError', 'ZeroDivisionError', 'Cancelled']      # 'Cancelled' derives from BaseException, not Exception (kscript.Cancelled)


def delay(rng, malformed=False):
    x = rng.random()
    if malformed and x < 0.03:
        return -rng.choice([0.5, 1, 2, 2.0 ** -40, 1e-12, 5e-10, 1e-300, 5e-324])      # boundary: a delay is refused as soon as it is < 0
    if x < 0.75:
        return rng.choice(DYADIC)
    if x < 0.85:
        return rng.randint(0, 3)
    return round(rng.random() * 3, rng.choice([1, 2, 17]))


def val(rng):
    return None if rng.random() < 0.15 else rng.randint(-3, 40)


def handler(rng):
    return rng.choice([0, 0, 0, 1, 1, 2, 3, 11, 12])


# ------------------------------------------------------------------------------------------------
# generic random programs (C01, C02, C04, C05)

WEIGHTS = {
    #            timeout event succeed fail spawn interrupt probe log yield cond ret raise
    'time':     (30,     4,    4,      1,   8,    6,        8,    8,  34,   3,   2,  1),
    'outcome':  (16,     10,   12,     9,   9,    2,        8,    6,  34,   3,   4,  4),
    'intr':     (18,     4,    4,      2,   8,    18,       6,    8,  32,   3,   2,  2),
    'cond':     (18,     8,    8,      5,   5,    3,        6,    4,  28,   18,  2,  2),
}
OPS = ['timeout', 'event', 'succeed', 'fail', 'spawn', 'interrupt', 'probe', 'log', 'yield', 'cond', 'ret', 'raise']


def gen_prog(rng, profile, nslots, nprogs, pidx, malformed, names):
    n = rng.randint(2, 12)
    prog = []
    w = WEIGHTS[profile]
    for k in range(n):
        op = rng.choices(OPS, weights=w)[0]
        sl = rng.randrange(nslots)
        if profile == 'intr' and op in ('spawn', 'interrupt') and rng.random() < 0.85:
            sl = rng.randrange(min(2, nslots))      # slots 0-1 are where processes live in this profile
        if op == 'timeout':
            prog.append(('timeout', sl, delay(rng, malformed), val(rng)))
            if rng.random() < 0.6:
                prog.append(('yield', sl, handler(rng)))
        elif op == 'event':
            prog.append(('event', sl))
        elif op == 'succeed':
            prog.append(('succeed', sl, val(rng)))
        elif op == 'fail':
            prog.append(('fail', sl, rng.choice(EXCS), rng.randint(0, 9)))
        elif op == 'spawn':
            if pidx + 1 < nprogs:      # spawn only later programs: no unbounded recursion
                names[0] += 1
                prog.append(('spawn', sl, rng.randrange(pidx + 1, nprogs), names[0]))
                if rng.random() < 0.4:
                    prog.append(('yield', sl, handler(rng)))
        elif op == 'interrupt':
            prog.append(('interrupt', sl, rng.randint(0, 9)))
        elif op == 'probe':
            prog.append(('probe', sl, rng.randint(0, 99)))
        elif op == 'log':
            prog.append(('log', rng.randint(0, 99)))
        elif op == 'yield':
            prog.append(('yield', sl, handler(rng)))
        elif op == 'cond':
            k = rng.choice([0, 1, 2, 2, 2, 3, 3, 4])
            ops = [rng.randrange(nslots) for _ in range(k)]
            prog.append((rng.choice(['allof', 'anyof']), sl) + tuple(ops))
            if rng.random() < 0.7:
                prog.append(('yield', sl, handler(rng)))
        elif op == 'ret' and k > n // 2:
            prog.append(('ret', val(rng)) if rng.random() < 0.7 else ('retev', sl))      # a value, or the event object a slot holds
        elif op == 'raise' and k > n // 2:
            prog.append(('raise', rng.choice(EXCS), rng.randint(0, 9)))
    return prog


def gen_generic(rng, cid, profile, mode='step', malformed=False):
    c = Case(cid, mode)
    nprogs = rng.randint(1, 6)
    nslots = rng.choice([3, 4, 6, 8])
    names = [100]
    for pi in range(nprogs):
        c.progs.append(gen_prog(rng, profile, nslots, nprogs, pi, malformed, names))
    for i in range(rng.randint(1, 6)):
        c.mains.append((rng.randrange(nprogs), i + 1))
    return c


# ------------------------------------------------------------------------------------------------
# condition chains (C05): `(a & b) & c`, `(a | b) | c`, `a & (b & c)`, mixed - built two operands at a time into EVEN slots, which
# the interpreter writes with the operators `&` / `|` - over timeouts, shared events succeeded or failed by another process and
# child processes that return or raise; inner conditions still pending when the chain is extended; failing non-last operands

def gen_chain(rng, cid, mode='step'):
    c = Case(cid, mode)
    nleaf = rng.randint(3, 5)
    times = [0, 0.5, 1, 1, 2, 3]
    pfail = rng.choice([0.15, 0.35, 0.6])
    builder, others = [], []
    names = 300
    c.progs.append(builder)
    c.mains.append((0, 1))
    for i in range(nleaf):
        kind = rng.choice(['timeout', 'event', 'event', 'process', 'process'])
        t = rng.choice(times)
        bad = rng.random() < pfail
        if kind == 'timeout':
            builder.append(('timeout', i, t, val(rng)))
        elif kind == 'event':
            builder.append(('event', i))
            c.progs.append([('timeout', 10 + i, t, None), ('yield', 10 + i, 0),
                            ('fail', i, rng.choice(EXCS), rng.randint(0, 9)) if bad else ('succeed', i, val(rng))])
            others.append(len(c.progs) - 1)
        else:
            names += 1
            c.progs.append([('timeout', 10 + i, t, None), ('yield', 10 + i, 0),
                            ('raise', rng.choice(EXCS), rng.randint(0, 9)) if bad else ('ret', val(rng))])
            builder.append(('spawn', i, len(c.progs) - 1, names))
    same = rng.random() < 0.75
    k0 = rng.choice(['allof', 'anyof'])
    kind = lambda: k0 if same else rng.choice(['allof', 'anyof'])
    leaves = list(range(nleaf))
    rng.shuffle(leaves)
    top = 20
    if rng.random() < 0.2:
        builder.append((kind(), top, leaves[1], leaves[2]))               # a op (b op c)
        builder.append((kind(), top + 2, leaves[0], top))
        top, rest = top + 2, leaves[3:]
    else:
        builder.append((kind(), top, leaves[0], leaves[1]))               # (a op b) op c op ...
        rest = leaves[2:]
    for x in rest:
        if rng.random() < 0.2:
            builder += [('timeout', 40, rng.choice([0, 0.5, 1]), None), ('yield', 40, 0)]     # the inner condition may be done by now
        if rng.random() < 0.15:
            builder.append((kind(), top + 1, top, x, rng.choice(leaves)))                     # odd slot: through all_of / any_of lists
            top += 1
            top += top % 2
            continue
        builder.append((kind(), top + 2, top, x))
        top += 2
    if rng.random() < 0.3:
        c.progs.append([('timeout', 41, rng.choice([0, 0.5]), None), ('yield', 41, 0), ('yield', 20, rng.choice([0, 3])), ('log', 71)])
        others.append(len(c.progs) - 1)
    builder += [('yield', top, rng.choice([0, 0, 0, 2, 3, 12])), ('log', 70)]
    for x in rng.sample(leaves, rng.randint(0, 2)):
        builder.append(('yield', x, rng.choice([0, 0, 3])))
    for j, pi in enumerate(others):
        c.mains.append((pi, 2 + j))
    if rng.random() < 0.5:
        rng.shuffle(c.mains)
    return c


# ------------------------------------------------------------------------------------------------
# conditions and direct waiters on the same shared events, everything decided inside ONE instant (C02, C05):
# * a condition over shared events a, b(, c) that one member decides (any_of: the first one triggered; all_of: the first one
#   that fails) while another member is succeeded / FAILED later in the same instant - in the same burst, by a second process
#   woken at that instant, or by a child process that raises then - i.e. after the condition was triggered and before it is
#   processed; the late member has, or has not, a waiter of its own (a failure nobody handles must make the run raise);
# * processes that wait for a member directly, registered before or after the condition was built over it; on resumption they
#   trigger another event (slot 5) that a further process awaits: what the waiters of one event cause happens in registration order

def gen_decided(rng, cid, mode='step'):
    c = Case(cid, mode)
    n = rng.choice([2, 2, 2, 3])
    kind = rng.choice(['anyof', 'allof'])
    t = rng.choice([0, 0.5, 1, 1, 2])
    names = 400
    builder = [('event', i) for i in range(n)] + [('event', 5)]
    c.progs.append(builder)
    procs = {}                       # member slot -> program index of the child process that IS that member
    for i in range(n):
        if rng.random() < 0.2:
            names += 1
            c.progs.append([('timeout', 10 + i, t, None), ('yield', 10 + i, 0),
                            rng.choice([('raise', rng.choice(EXCS), rng.randint(0, 9)), ('raise', rng.choice(EXCS), rng.randint(0, 9)), ('ret', val(rng))])])
            procs[i] = len(c.progs) - 1
            builder[i] = ('spawn', i, procs[i], names)
    if rng.random() < 0.5:
        builder += [('timeout', 30, rng.choice([0, 0.5]), None), ('yield', 30, 0)]      # direct waiters may register first
    ops = list(range(n))
    rng.shuffle(ops)
    if n == 3 and rng.random() < 0.3:
        builder.append((rng.choice(['anyof', 'allof']), 22, ops[0], ops[1]))
        builder.append((kind, 24, 22, ops[2]) if rng.random() < 0.5 else (kind, 24, ops[2], 22))
        top = 24
    else:
        top = rng.choice([20, 21, 21])       # even slot and two operands: written with & / |
        builder.append((kind, top) + tuple(ops))
    builder += [('yield', top, rng.choice([0, 0, 0, 2, 3, 12])), ('log', 70)]
    mains = [(0, 1)]
    # the triggers: one burst, or spread over processes woken at the same / a later instant
    free = [i for i in range(n) if i not in procs]
    rng.shuffle(free)
    acts = []
    for i in free:
        acts.append(('fail', i, rng.choice(EXCS), rng.randint(0, 9)) if rng.random() < 0.55 else ('succeed', i, val(rng)))
    split = rng.random()
    groups = [acts] if split < 0.6 else [acts[:1], acts[1:]]
    for gi, g in enumerate(groups):
        if not g:
            continue
        tg = t if (gi == 0 or split < 0.85) else t + rng.choice([0.5, 1])
        c.progs.append([('timeout', 14 + gi, tg, None), ('yield', 14 + gi, 0)] + g)
        mains.append((len(c.progs) - 1, 2 + gi))
    # direct waiters of the members
    for i in range(n):
        if rng.random() < 0.35:
            prog = []
            d = rng.choice([0, 0, 0.5, t])
            if d or rng.random() < 0.3:
                prog += [('timeout', 16 + i, d, None), ('yield', 16 + i, 0)]
            prog += [('yield', i, rng.choice([0, 0, 0, 3]))]
            if rng.random() < 0.6:
                prog.append(('succeed', 5, 40 + i))
            prog.append(('log', 60 + i))
            c.progs.append(prog)
            mains.append((len(c.progs) - 1, 5 + i))
    if rng.random() < 0.7:
        c.progs.append([('yield', 5, 0), ('log', 75)])
        mains.append((len(c.progs) - 1, 9))
    if rng.random() < 0.3:
        c.progs.append([('timeout', 19, t + 2, None), ('yield', 19, 0), ('log', 76)])      # later activity: a lost failure lets it happen
        mains.append((len(c.progs) - 1, 10))
    first = mains[0]
    rest = mains[1:]
    if rng.random() < 0.6:
        rng.shuffle(rest)
    # the builder creates the shared events: it always starts first
    c.mains = [first] + rest
    return c


# ------------------------------------------------------------------------------------------------
# processes whose return value is an event object (C02 "a process's own termination is such an event carrying its return value"):
# * a launcher starts a worker and returns its handle (the Process) to whoever joins the launcher; the caller keeps the handle,
#   joins the worker through it, interrupts it, or builds a condition over it;
# * a keeper returns the handle of a process that has already finished (or failed, the failure having been handled), its OWN
#   handle, a shared event (pending, triggered, processed), a timeout or a condition;
# waiters, probe callbacks and conditions sit on the launcher; the worker returns, raises or never ends

def gen_launcher(rng, cid, mode='step'):
    c = Case(cid, mode)
    names = 700
    main = []
    c.progs.append(main)
    c.mains.append((0, 1))
    t = rng.choice([0, 0.5, 1, 1, 2])
    what = rng.choice(['worker', 'worker', 'worker', 'finished', 'self', 'event', 'timeout', 'cond'])
    # program 1: what the returned handle stands for
    wend = rng.choice([('ret', val(rng)), ('ret', val(rng)), ('raise', rng.choice(EXCS), rng.randint(0, 9)), ('yield', 9, 0)])   # slot 9: an event nobody triggers
    c.progs.append([('log', 30), ('timeout', 10, rng.choice([0, 1, 3, 5]), None), ('yield', 10, 0), ('log', 31), wend])
    launcher = [('timeout', 11, t, None), ('yield', 11, 0)]
    if what == 'worker':
        names += 1
        launcher += [('spawn', 2, 1, names)]
        if rng.random() < 0.3:
            launcher += [('timeout', 12, rng.choice([0, 1]), None), ('yield', 12, 0)]
        launcher += [('log', 32), ('retev', 2)]
    elif what == 'finished':
        names += 1
        main += [('spawn', 2, 1, names), ('yield', 2, 0)]           # joined (its failure handled) before the launcher even starts
        launcher += [('retev', 2)]
    elif what == 'self':
        launcher += [('retev', 1)]                                  # slot 1 will hold the launcher itself
    elif what == 'event':
        main += [('event', 2)]
        if rng.random() < 0.6:
            main += [('succeed', 2, val(rng))]
        launcher += [('retev', 2)]
    elif what == 'timeout':
        launcher += [('timeout', 2, rng.choice([0, 2, 5]), val(rng)), ('retev', 2)]
    else:
        launcher += [('timeout', 3, 2, val(rng)), ('event', 4), (rng.choice(['allof', 'anyof']), 2, 3, 4), ('retev', 2)]
    c.progs.append(launcher)
    main += [('event', 9)]
    names += 1
    main += [('spawn', 1, 2, names)]
    if rng.random() < 0.5:
        main += [('probe', 1, 7)]
    # what the caller does with the handle it receives
    use = rng.random()
    main += [('yield', 1, rng.choice([0, 0, 3])), ('log', 33)]
    if use < 0.4:
        main += [('yield', 2, rng.choice([0, 0, 3])), ('log', 34)]              # joins the worker through the handle
    elif use < 0.6:
        main += [('timeout', 13, 1, None), ('yield', 13, 0), ('interrupt', 2, 5), ('yield', 2, 0)]
    elif use < 0.75:
        main += [('timeout', 13, rng.choice([1, 4]), None), (rng.choice(['allof', 'anyof']), 14, 2, 13), ('yield', 14, 0), ('log', 35)]
    # further waiters of the launcher: registered before / after it ends; a condition over it
    for j in range(rng.randint(0, 3)):
        prog = [('timeout', 15 + j, rng.choice([0, 0, t, t, t + 1, t + 6]), None), ('yield', 15 + j, 0)]
        if rng.random() < 0.25:
            prog += [(rng.choice(['allof', 'anyof']), 20 + 2 * j, 1, 15 + j), ('yield', 20 + 2 * j, 0), ('log', 40 + j)]
        else:
            prog += [('yield', 1, rng.choice([0, 0, 3])), ('log', 40 + j)]
        c.progs.append(prog)
        c.mains.append((len(c.progs) - 1, 2 + j))
    if rng.random() < 0.3:
        c.progs.append([('timeout', 28, t + rng.choice([1, 8]), None), ('yield', 28, 0), ('log', 50)])     # later activity
        c.mains.append((len(c.progs) - 1, 9))
    return c


# ------------------------------------------------------------------------------------------------
# trigger order inside the ordinary class (C01): at an instant t at which other occurrences are pending - parked waiters of a
# `gate` event triggered just before, timeouts due at t, process starts, zero-delay timeouts - a process triggers a fresh event on
# which nobody waits yet (`ack`) and yields it right away, builds a condition over it, starts a child that yields it, or a
# process woken later in that instant yields it: the ack takes effect only after everything triggered before it

def gen_ack(rng, cid, mode='step'):
    c = Case(cid, mode)
    t = rng.choice([0, 0.5, 1, 1, 2])
    names = 500
    driver = [('event', 0)]
    c.progs.append(driver)
    rest = []
    for j in range(rng.randint(0, 2)):                       # parked on the gate
        c.progs.append([('yield', 0, 0), ('log', 60 + j)] + ([('timeout', 12 + j, 0, None), ('yield', 12 + j, 0), ('log', 62 + j)] if rng.random() < 0.3 else []))
        rest.append((len(c.progs) - 1, 2 + j))
    for j in range(rng.randint(0, 3)):                       # sleepers due at t
        c.progs.append([('timeout', 14 + j, t, val(rng)), ('yield', 14 + j, 0), ('log', 65 + j)])
        rest.append((len(c.progs) - 1, 5 + j))
    driver += [('timeout', 20, t, None), ('yield', 20, 0)]
    if rng.random() < 0.75:
        driver.append(('succeed', 0, val(rng)))
    if rng.random() < 0.3:
        driver += [('timeout', 21, 0, 3), ('probe', 21, 7)]
    if rng.random() < 0.3:
        names += 1
        c.progs.append([('log', 77)])
        driver.append(('spawn', 6, len(c.progs) - 1, names))
    for k in range(rng.choice([1, 1, 2])):
        a = 1 + 2 * k                                        # ack slots 1, 3
        driver.append(('event', a))
        bad = rng.random() < 0.2
        driver.append(('fail', a, rng.choice(EXCS), rng.randint(0, 9)) if bad else ('succeed', a, val(rng)))
        how = rng.random()
        if how < 0.5:
            driver += [('yield', a, 0), ('log', 70 + k)]
        elif how < 0.7:
            driver += [(rng.choice(['allof', 'anyof']), 31 + 2 * k, a), ('yield', 31 + 2 * k, 0), ('log', 72 + k)]
        elif how < 0.85:
            names += 1
            c.progs.append([('yield', a, 0), ('log', 74 + k)])
            driver.append(('spawn', 8 + k, len(c.progs) - 1, names))
        else:
            c.progs.append([('timeout', 22 + k, t, None), ('yield', 22 + k, 0), ('yield', a, 0), ('log', 76 + k)])
            rest.append((len(c.progs) - 1, 9 + k))
    driver.append(('log', 79))
    if rng.random() < 0.6:
        rng.shuffle(rest)
    c.mains = [(0, 1)] + rest
    return c


# ------------------------------------------------------------------------------------------------
# resources (C06): processes follow request / hold / release patterns; each process uses one resource

def gen_nested(rng, cid, mode='step'):
    """processes that hold slots of TWO resources in nested with-blocks (`with a.request() as x: yield x; with b.request() as y:
    yield y; work`), at least one of them a PreemptiveResource, with the handler of an Interrupt OUTSIDE both blocks: a
    preemption on one resource (or any other exception arriving at a yield inside) unwinds both blocks, innermost first - the
    `exit` instructions run with the exception in flight - and BOTH slots are passed on within that instant.  Around them:
    preemptors of the preemptive resource(s) and plain customers of each resource who get (or wait for) the slots given back"""
    c = Case(cid, mode)
    shape = rng.choice(['pre-outer', 'pre-outer', 'pre-inner', 'pre-inner', 'both'])
    other = lambda: rng.choice(['resource', 'resource', 'priority', 'preemptive'])
    kinds = {'pre-outer': ['preemptive', other()], 'pre-inner': [other(), 'preemptive'], 'both': ['preemptive', 'preemptive']}[shape]
    caps = [rng.choice([1, 1, 1, 2]), rng.choice([1, 1, 2])]
    c.res = [(kinds[0], caps[0], 0), (kinds[1], caps[1], 0)]
    slot = 0
    def add(prog):
        c.progs.append(prog); c.mains.append((len(c.progs) - 1, len(c.progs)))
    for i in range(rng.randint(1, 3)):           # the nesting processes: resource 0 outside, resource 1 inside
        prog = []
        if i or rng.random() < 0.4:
            prog += [('timeout', slot, rng.choice([0, 0.5, 1, 1, 2]), None), ('yield', slot, 0)]
        slot += 1
        a, b, ts = slot, slot + 1, slot + 2
        slot += 3
        work = [('timeout', ts, rng.choice([3, 5, 10, 10]), None), ('yield', ts, 10)]
        if rng.random() < 0.3:
            work = [('timeout', ts, rng.choice([1, 2]), None), ('yield', ts, 12 + 0), ('timeout', ts, rng.choice([2, 5]), None), ('yield', ts, 10)]
        inner = [('request', b, 1, rng.choice([1, 2, 3, 3]), rng.random() < 0.3), ('yield', b, 10 + len(work))] + work + [('exit', b, 1)]
        prog += [('request', a, 0, rng.choice([1, 2, 3, 3]), rng.random() < 0.3), ('yield', a, 10 + len(inner))] + inner + [('exit', a, 0)]
        if rng.random() < 0.5:
            prog += [('log', 40 + i)]
        if rng.random() < 0.4:
            prog += [('timeout', ts, rng.choice([0, 1]), None), ('yield', ts, 0), ('log', 45 + i)]
        add(prog)
    for r in (0, 1):                               # preemptors (better priority, preempting) and plain customers of each resource
        for j in range(rng.randint(1, 2) if kinds[r] == 'preemptive' else rng.randint(0, 2)):
            pre = kinds[r] == 'preemptive' and rng.random() < 0.8
            add([('timeout', slot, rng.choice([1, 2, 2, 3, 4]), None), ('yield', slot, 0),
                 ('request', slot + 1, r, rng.choice([0, 0, 1]) if pre else rng.choice([0, 2, 4]), pre), ('yield', slot + 1, 12),
                 ('timeout', slot + 2, rng.choice([1, 1, 2, 6]), None), ('yield', slot + 2, 10), ('exit', slot + 1, r), ('log', 50 + 2 * r + j)])
            slot += 3
    if rng.random() < 0.5:
        first, rest = c.mains[:1], c.mains[1:]
        rng.shuffle(rest)
        c.mains = first + rest
    return c


def gen_resource(rng, cid, mode='step'):
    x = rng.random()
    if x < 0.12:
        return gen_preempt_queue(rng, cid, mode)
    if x < 0.27:
        return gen_nested(rng, cid, mode)
    c = Case(cid, mode)
    nres = rng.choice([1, 1, 2])
    for _ in range(nres):
        c.res.append((rng.choice(['resource', 'priority', 'preemptive', 'preemptive']), rng.choice([1, 1, 2, 3, 4]), 0))
    nproc = rng.randint(2, 8)
    slot = 0
    for i in range(nproc):
        r = rng.randrange(nres)
        prog = []
        if rng.random() < 0.7:
            prog += [('timeout', slot, delay(rng), None), ('yield', slot, 0)]
        slot += 1
        for cycle in range(rng.randint(1, 3)):
            rs, ts, cs = slot, slot + 1, slot + 2
            slot += 3
            prio = rng.choice([0, 0, 1, 1, 2])
            pre = rng.random() < 0.6
            pat = rng.random()
            prog.append(('request', rs, r, prio, pre))
            if pat < 0.55:
                # wait for the grant, hold, release via with-exit; an interrupt (preemption) jumps to the exit
                prog += [('yield', rs, 12), ('timeout', ts, delay(rng), None), ('yield', ts, 10), ('exit', rs, r)]
            elif pat < 0.8:
                # give up after a patience timeout: `with` exit cancels (or releases when granted meanwhile)
                prog += [('timeout', ts, delay(rng), None), ('anyof', cs, rs, ts), ('yield', cs, 12),
                         ('timeout', ts, delay(rng), None), ('yield', ts, 10), ('exit', rs, r)]
            elif pat < 0.9:
                # explicit release, possibly twice (harmless), or release of a non-user
                prog += [('yield', rs, 12), ('timeout', ts, delay(rng), None), ('yield', ts, 10), ('release', cs, r, rs)]
                if rng.random() < 0.5:
                    prog.append(('release', cs, r, rs))
                else:
                    prog.append(('cancel', rs))
            else:
                # cancel at once, then release anyway
                prog += [('cancel', rs), ('release', cs, r, rs)]
            if rng.random() < 0.5:
                prog += [('timeout', ts, delay(rng), None), ('yield', ts, 0)]
        c.progs.append(prog)
        c.mains.append((i, i + 1))
    return c


def gen_preempt_queue(rng, cid, mode='step'):
    """a PreemptiveResource whose slots are taken; a NON-preempting request N queues up; a preempting request P that ranks better
    than some user but worse than N queues up behind it (queue order forbids serving P first); then N leaves the head of the
    queue - it reneges (patience timeout, with-exit cancels it) or is served by an ordinary release - and P is re-evaluated from
    the queue: the eviction is decided while somebody else (or nobody) is the active process"""
    c = Case(cid, mode)
    cap = rng.choice([1, 1, 2])
    c.res.append(('preemptive', cap, 0))
    slot = 0
    def add(prog):
        c.progs.append(prog); c.mains.append((len(c.progs) - 1, len(c.progs)))
    # the users: take the slots at time 0 (the last one is the bad one), hold, leave through the with-exit (also when evicted)
    for u in range(cap):
        bad = u == cap - 1
        prio = rng.choice([3, 3, 2]) if bad else rng.choice([0, 0, 1])
        hold = rng.choice([10, 10, 4]) if bad else rng.choice([3, 3, 2, 10])
        add([('request', slot, 0, prio, rng.random() < 0.3), ('yield', slot, 12), ('timeout', slot + 1, hold, None), ('yield', slot + 1, 10), ('exit', slot, 0)]
            + ([('timeout', slot + 2, 1, None), ('yield', slot + 2, 0), ('log', 50 + u)] if rng.random() < 0.4 else []))
        slot += 3
    # N: non-preempting, better ranked, arrives first
    tn, tp = rng.choice([(1, 2), (1, 2), (1, 1), (0.5, 1), (2, 1)])
    nprio = rng.choice([1, 1, 0, 2])
    prog = [('timeout', slot, tn, None), ('yield', slot, 0), ('request', slot + 1, 0, nprio, False)]
    if rng.random() < 0.65:
        prog += [('timeout', slot + 2, rng.choice([2, 2, 1, 0.5]), None), ('anyof', slot + 3, slot + 1, slot + 2), ('yield', slot + 3, 12),
                 ('exit', slot + 1, 0)]                                                   # reneges (or releases at once when served meanwhile)
    else:
        prog += [('yield', slot + 1, 12), ('timeout', slot + 2, rng.choice([1, 2]), None), ('yield', slot + 2, 10), ('exit', slot + 1, 0)]
    add(prog)
    slot += 4
    # P (one or two): preempting, behind N
    for k in range(rng.choice([1, 1, 2])):
        pprio = rng.choice([2, 2, 1, 3])
        add([('timeout', slot, tp + k * rng.choice([0, 0.5]), None), ('yield', slot, 0), ('request', slot + 1, 0, pprio, rng.random() < 0.85),
             ('yield', slot + 1, 12), ('timeout', slot + 2, rng.choice([1, 1, 3]), None), ('yield', slot + 2, 10), ('exit', slot + 1, 0)])
        slot += 3
    if rng.random() < 0.5:
        first, rest = c.mains[:cap], c.mains[cap:]
        rng.shuffle(rest)
        c.mains = first + rest
    return c


# ------------------------------------------------------------------------------------------------
# containers and stores (C07)

def gen_bulk(rng, cid, mode='step'):
    """a store filled with many items in arbitrary order by one or two producers, then drained by getters"""
    c = Case(cid, mode)
    k = rng.choice(['pstore', 'pstore', 'store', 'fstore'])
    c.res.append((k, rng.choice([None, None, 12, 16]), 0))
    slot = 0
    n = rng.randint(5, 14)
    items = [rng.randint(0, 12) for _ in range(n)]
    nprod = rng.choice([1, 1, 2])
    for i in range(nprod):
        prog = []
        for x in items[i::nprod]:
            prog.append(('sput', slot, 0, x)); slot += 1
            if rng.random() < 0.15:
                prog += [('timeout', slot, delay(rng), None), ('yield', slot, 0)]; slot += 1
        c.progs.append(prog)
    for j in range(rng.choice([1, 1, 2, 3])):
        prog = []
        if rng.random() < 0.8:
            prog += [('timeout', slot, rng.choice([0, 0.25, 1, 4]), None), ('yield', slot, 0)]; slot += 1
        for _ in range(rng.randint(2, n)):
            prog += [('sget', slot, 0, rng.randrange(5)), ('yield', slot, 0)]; slot += 1
            if rng.random() < 0.2:
                prog += [('sput', slot, 0, rng.randint(0, 12))]; slot += 1
        c.progs.append(prog)
    for i in range(len(c.progs)):
        c.mains.append((i, i + 1))
    return c


def gen_store(rng, cid, mode='step', malformed=False):
    if not malformed and rng.random() < 0.2:
        return gen_bulk(rng, cid, mode)
    c = Case(cid, mode)
    nres = rng.choice([1, 1, 2])
    for _ in range(nres):
        k = rng.choice(['container', 'container', 'store', 'pstore', 'fstore'])
        cap = rng.choice([1, 2, 5, 10, None])
        ini = rng.randint(0, cap if cap is not None else 6) if k == 'container' else 0
        c.res.append((k, cap, ini))
    nproc = rng.randint(2, 8)
    slot = 0
    for i in range(nproc):
        prog = []
        for step in range(rng.randint(1, 6)):
            r = rng.randrange(nres)
            k = c.res[r][0]
            rs, ts, cs = slot, slot + 1, slot + 2
            slot += 3
            if rng.random() < 0.5:
                prog += [('timeout', ts, delay(rng), None), ('yield', ts, 0)]
            amount = rng.randint(0 if malformed else 1, 6)
            isput = rng.random() < 0.5
            if k == 'container':
                prog.append(('cput' if isput else 'cget', rs, r, amount))
            else:
                prog.append(('sput', rs, r, rng.randint(0, 9)) if isput else ('sget', rs, r, rng.randrange(5)))
            pat = rng.random()
            if pat < 0.55:
                prog.append(('yield', rs, 0))
            elif pat < 0.85:
                # wait with patience, cancel when the patience ran out (cancel of a granted request is a no-op)
                prog += [('timeout', ts, delay(rng), None), ('anyof', cs, rs, ts), ('yield', cs, 0), ('cancel', rs)]
            elif pat < 0.93:
                prog.append(('cancel', rs))
                if malformed and rng.random() < 0.3:
                    prog.append(('cancel', rs))
            # else: fire and forget
        c.progs.append(prog)
        c.mains.append((i, i + 1))
    return c


# ------------------------------------------------------------------------------------------------
# split plans (C03)

def due_instants(case):
    """instants at which something is due in the uninterrupted run (computed by running it once)"""
    from harness.kscript import Runner
    r = Runner(Case.from_json({**case.to_json(), 'mode': 'step'}))
    r.start()
    seen = []
    from onl.sim.core import EmptySchedule
    for _ in range(2000):
        t = r.env.peek()
        if t == float('inf'):
            break
        if not seen or seen[-1] != t:
            seen.append(t)
        try:
            r.env.step()
        except EmptySchedule:
            break
        except BaseException:
            break
    return seen


def gen_plan(rng, base: Case, cid):
    """a split plan for `base` whose stop points coincide with due occurrences"""
    c = Case.from_json({**base.to_json(), 'cid': str(cid), 'mode': 'plan'})
    inst = [t for t in due_instants(base)]
    nslots = 1 + max([ins[1] for p in base.progs for ins in p if len(ins) > 1 and isinstance(ins[1], int)] or [0])
    plan = []
    last = 0.0
    for _ in range(rng.randint(1, 6)):
        x = rng.random()
        if x < 0.45 and inst:
            t = rng.choice(inst)
            y = rng.random()
            if y < 0.2:
                t = t + rng.choice([0.125, -0.125, 0.3])
            elif y < 0.45:
                t = round(rng.uniform(0, max(inst) + 1), 2)       # non-dyadic stop instants: now + (t - now) != t territory
            plan.append(('T', float(t)))
        elif x < 0.75:
            plan.append(('E', rng.randrange(nslots)))
        else:
            plan.append(('S', rng.randint(1, 7)))
    if rng.random() < 0.5:
        # stops in increasing order, so that most of them are accepted (t > now)
        ts = sorted(s_[1] for s_ in plan if s_[0] == 'T')
        it = iter(ts)
        plan = [('T', next(it)) if s_[0] == 'T' else s_ for s_ in plan]
    # target until-events that fail: slots that some program fails, and processes that raise
    failing = [ins[1] for p in base.progs for ins in p if ins[0] == 'fail'] + \
              [ins[1] for p in base.progs for ins in p if ins[0] == 'spawn' and ins[2] < len(base.progs)
               and any(i2[0] == 'raise' for i2 in base.progs[ins[2]])]
    if failing and rng.random() < 0.35:
        plan.insert(rng.randrange(len(plan) + 1), ('E', rng.choice(failing)))
    c.plan = plan
    return c


def gen_until_fail(rng, cid):
    """a split plan whose run(until=event) waits for an event that another process fails (or a child process that raises)
    while nobody, or somebody, handles the failure: C02 'a failed event that no waiter handles makes run()/step() raise'"""
    c = Case(cid, 'plan')
    t = rng.choice([0, 0.5, 1, 2])
    main = []
    c.progs.append(main)
    c.mains.append((0, 1))
    bad = rng.random() < 0.8
    if rng.random() < 0.5:
        c.progs.append([('timeout', 5, t, None), ('yield', 5, 0),
                        ('raise', rng.choice(EXCS), rng.randint(0, 9)) if bad else ('ret', val(rng))])
        main.append(('spawn', 0, 1, 301))
    else:
        main.append(('event', 0))
        c.progs.append([('timeout', 5, t, None), ('yield', 5, 0),
                        ('fail', 0, rng.choice(EXCS), rng.randint(0, 9)) if bad else ('succeed', 0, val(rng))])
        c.mains.append((1, 2))
    for j in range(rng.choice([0, 0, 0, 1, 2])):
        c.progs.append([('timeout', 6 + j, rng.choice([0, 0.5]), None), ('yield', 6 + j, 0), ('yield', 0, rng.choice([0, 0, 3])), ('log', 80 + j)])
        c.mains.append((len(c.progs) - 1, 3 + j))
    main += [('timeout', 9, rng.choice([1, 3]), 7), ('yield', 9, 0), ('log', 81)]
    c.plan = [('S', rng.randint(1, 4)), ('E', 0)]
    if rng.random() < 0.5:
        c.plan.append(rng.choice([('T', float(t + 1)), ('S', 2), ('E', 9)]))
    return c


def gen_crash_plan(rng, cid):
    """a split plan one of whose pieces is cut short by an exception of user code - a process that raises, a shared event failed
    with nobody waiting - which the caller catches, and then carries on with further run(until=...)/step()/run() pieces, while
    MANY timeouts (8-16 sleepers, one to three naps each, due before and after the stop instants) are pending: whatever an aborted
    piece leaves behind, the continued run still processes every occurrence at its due time, in time order (C01 holds for the
    run as a whole; C03: the way a run is driven does not reorder it)"""
    c = Case(cid, 'plan')
    slot = 0
    n = rng.randint(8, 16)
    span = rng.choice([12, 30, 30, 60])
    for i in range(n):
        prog = []
        for k in range(rng.choice([1, 1, 2, 2, 3])):
            d = rng.choice([rng.randint(1, span), rng.randint(1, span), rng.choice([0.5, 1.5, 2.25]), round(rng.uniform(0.1, span), 2)])
            prog += [('timeout', slot, d, val(rng)), ('yield', slot, 0)]
            slot += 1
        if rng.random() < 0.3:
            prog.append(('log', 20 + i))
        c.progs.append(prog)
        c.mains.append((len(c.progs) - 1, i + 1))
    crashes = []
    for j in range(rng.choice([1, 1, 1, 2])):
        tc = rng.choice([rng.randint(1, max(2, span // 3)), rng.randint(1, span // 2), 0.5, 2.5]) + (span // 3 if j else 0)
        crashes.append(tc)
        if rng.random() < 0.7:
            c.progs.append([('timeout', slot, tc, None), ('yield', slot, 0), ('log', 90 + j), ('raise', rng.choice(EXCS), rng.randint(0, 9))])
        else:
            c.progs.append([('event', slot + 1), ('timeout', slot, tc, None), ('yield', slot, 0), ('fail', slot + 1, rng.choice(EXCS), rng.randint(0, 9)),
                            ('timeout', slot + 2, rng.choice([1, 3]), None), ('yield', slot + 2, 0), ('log', 92 + j)])
        slot += 3
        c.mains.append((len(c.progs) - 1, 50 + j))
    if rng.random() < 0.5:
        rng.shuffle(c.mains)
    plan = []
    if rng.random() < 0.3:
        plan.append(rng.choice([('S', rng.randint(1, n)), ('T', float(min(crashes)) / 2)]))
    # the piece that is cut short: mostly a numeric stop beyond the crash (and beyond most of the program)
    t_stop = rng.choice([float(span + rng.randint(1, 40)), float(max(crashes) + rng.randint(1, span)), float(min(crashes)) + 0.5, float(span * 3)])
    plan.append(('T', t_stop))
    for _ in range(rng.randint(0, 3)):
        x = rng.random()
        if x < 0.4:
            plan.append(('T', float(rng.randint(1, 2 * span)) + rng.choice([0, 0.5])))
        elif x < 0.7:
            plan.append(('S', rng.randint(1, 9)))
        else:
            plan.append(('E', rng.randrange(max(1, slot - 3))))
    c.plan = plan
    return c


def gen_until_react(rng, cid):
    """a split plan whose run(until=event) waits for an event that has waiters registered BEFORE run() is called, and those
    waiters react at once: they start a process, interrupt a sleeper, trigger another event with its own waiter, create a
    zero-delay timeout.  C03 "run(until=event) returns that event's value right after it is processed": none of these
    reactions has taken effect when run() returns; they do when the run is resumed."""
    c = Case(cid, 'plan')
    t = rng.choice([0.5, 1, 1, 2])
    main = []
    c.progs.append(main)
    c.mains.append((0, 1))
    names = 600
    kind = rng.random()
    if kind < 0.45:
        main.append(('timeout', 0, t, val(rng)))
    elif kind < 0.75:
        main.append(('event', 0))
        c.progs.append([('timeout', 9, t, None), ('yield', 9, 0), ('succeed', 0, val(rng))])
        c.mains.append((1, 2))
    else:
        names += 1
        c.progs.append([('timeout', 9, t, None), ('yield', 9, 0), ('ret', val(rng))])
        main.append(('spawn', 0, 1, names))
    main.append(('event', 5))
    # a sleeper to interrupt (slot 2), a waiter of the event the reactions trigger (slot 5)
    names += 1
    c.progs.append([('timeout', 8, 10, None), ('yield', 8, rng.choice([0, 0, 1, 2])), ('log', 60)])
    main.append(('spawn', 2, len(c.progs) - 1, names))
    c.progs.append([('yield', 5, 0), ('log', 61)])
    c.mains.append((len(c.progs) - 1, 3))
    helper = len(c.progs)
    c.progs.append([('log', 62)] + ([('timeout', 7, rng.choice([0, 1]), None), ('yield', 7, 0), ('log', 63)] if rng.random() < 0.6 else []))
    for j in range(rng.randint(1, 3)):
        prog = []
        if rng.random() < 0.3:
            prog += [('timeout', 10 + j, rng.choice([0, 0.25]), None), ('yield', 10 + j, 0)]
        prog.append(('yield', 0, 0))
        for _ in range(rng.randint(1, 3)):
            x = rng.random()
            if x < 0.35:
                names += 1
                prog.append(('spawn', 20 + j, helper, names))
            elif x < 0.65:
                prog.append(('interrupt', 2, 30 + j))
            elif x < 0.85:
                prog.append(('succeed', 5, 40 + j))
            else:
                prog += [('timeout', 24 + j, 0, 50 + j), ('probe', 24 + j, 50 + j)]
        prog.append(('log', 64 + j))
        c.progs.append(prog)
        c.mains.append((len(c.progs) - 1, 4 + j))
    main += [('timeout', 6, t + rng.choice([1, 2]), 7), ('yield', 6, 0), ('log', 69)]
    c.plan = [rng.choice([('S', rng.randint(len(c.mains), len(c.mains) + 6)), ('T', float(t) / 2), ('T', 0.25)]), ('E', 0)]
    if rng.random() < 0.6:
        c.plan.append(rng.choice([('S', 1), ('S', 3), ('T', float(t + 0.5)), ('E', 6), ('E', 5)]))
    return c


def gen_until_join(rng, cid):
    """a split plan whose run(until=...) target is a PROCESS, i.e. its termination event, with the joining left to the very instant
    at which the target ends: the target P sleeps until T (in one or two hops) and ends - mostly with nobody waiting for it yet;
    *participants* are resumed at T as well (one or two hops, started before or after P, so that they come before or after P's end
    in that instant): late joiners that yield P, probe it, or build a condition over it; bystanders that only log; now and then an
    early waiter that yields P from the start.  Everybody goes on into later instants (a second nap and a log), so that a
    same-instant swap carries on.  The plan reaches P's slot first (a few step()s, or a numeric stop before T) and then calls
    run(until=P); more pieces may follow.  C03 "unaffected by where it is stopped": being the until-target of a run must not
    change the order in which P's end, the joiners and the bystanders of that instant take effect (`oracle_split`)."""
    c = Case(cid, 'plan')
    T = rng.choice([0.5, 1, 1, 2, 3])

    def hops(first_slot):
        """sleep until T: one timeout, or two (the second one is created later than every one-hop timeout of the others)"""
        if rng.random() < 0.5:
            return [('timeout', first_slot, T, None), ('yield', first_slot, 0)]
        a = rng.choice([0.25, 0.5] if T > 0.5 else [0.25])
        return [('timeout', first_slot, a, None), ('yield', first_slot, 0), ('timeout', first_slot + 1, T - a, None), ('yield', first_slot + 1, 0)]

    main = []
    c.progs.append(main)
    c.mains.append((0, 1))
    # program 1: the target
    end = rng.random()
    tail = [('ret', val(rng))] if end < 0.8 else ([('raise', rng.choice(EXCS), rng.randint(0, 9))] if end < 0.9 else [])
    c.progs.append(hops(10) + ([('log', 70)] if rng.random() < 0.5 else []) + tail)
    names = 800
    late_start = rng.random() < 0.6          # the participants are started by `main` after P (else: main processes, started before P)
    if not late_start or rng.random() < 0.5:
        main.append(('spawn', 0, 1, names))
    roles = [rng.choice(['join', 'join', 'by', 'by', 'probe', 'cond']) for _ in range(rng.randint(2, 5))]
    if 'join' not in roles:
        roles[rng.randrange(len(roles))] = 'join'
    if rng.random() < 0.2:
        roles.insert(rng.randrange(len(roles) + 1), 'early')
    for j, role in enumerate(roles):
        s = 30 + 4 * j
        prog = [] if role == 'early' else hops(s)
        if role != 'early' and rng.random() < 0.1:
            prog += [('timeout', s + 2, rng.choice([0, 0.5]), None), ('yield', s + 2, 0)]       # a little after P's end
        if role in ('join', 'early'):
            prog += [('yield', 0, rng.choice([0, 0, 0, 2, 3])), ('log', 40 + j)]
        elif role == 'probe':
            prog += [('probe', 0, 20 + j)] + ([('yield', 0, rng.choice([0, 2]))] if rng.random() < 0.5 else []) + [('log', 40 + j)]
        elif role == 'cond':
            cs = rng.choice([s + 3, 60 + 2 * j])         # odd slot: AllOf/AnyOf(env, operands); even slot: written `P & x` / `P | x`
            prog += [(rng.choice(['allof', 'anyof']), cs, 0, s), ('yield', cs, rng.choice([0, 2])), ('log', 40 + j)]
        else:
            prog += [('log', 40 + j)]
        prog += [('timeout', s + 2, rng.choice([0.5, 1, 1, 2]), None), ('yield', s + 2, 0), ('log', 50 + j)]
        c.progs.append(prog)
        if late_start:
            names += 1
            main.append(('spawn', 20 + j, len(c.progs) - 1, names))
        else:
            c.mains.append((len(c.progs) - 1, 2 + j))
    if not any(i[0] == 'spawn' and i[1] == 0 for i in main):
        main.insert(rng.randrange(len(main) + 1), ('spawn', 0, 1, 800))      # P started among / after the participants
    main += [('timeout', 6, T + rng.choice([1, 3]), 7), ('yield', 6, 0), ('log', 69)]
    first = rng.choice([('S', rng.randint(1, 3 + len(roles))), ('S', 1), ('T', T / 2), ('T', 0.125)])
    c.plan = [first, ('E', 0)]
    for _ in range(rng.choice([0, 0, 1, 1, 2])):
        c.plan.append(rng.choice([('S', rng.randint(1, 4)), ('T', float(T + rng.choice([0.5, 1, 1.5]))), ('E', 20 + rng.randrange(len(roles))),
                                  ('E', 30 + 4 * rng.randrange(len(roles)) + 2), ('E', 6)]))
    return c


# ------------------------------------------------------------------------------------------------
# interrupts (C04): victims with long waits and the five handler behaviours, interrupters that hit them at
# chosen instants (before, exactly at, after the victim's target is due; right after spawn; several at once),
# co-waiters on the victims' targets

def gen_intr(rng, cid, mode='step'):
    c = Case(cid, mode)
    nv = rng.randint(1, 3)
    shared = 10            # slots 10.. hold the victims' targets (shared with co-waiters)
    names = 200
    joins = []
    # programs 0..nv-1: victims
    for v in range(nv):
        prog = []
        if rng.random() < 0.3:
            prog.append(('log', v))
        done = []          # slots of this victim whose event has been waited for (processed, unless an interrupt cut the wait short)
        for k in range(rng.randint(1, 5)):
            sl = shared + 3 * v + (k % 3)
            kind = rng.random()
            if kind < 0.6:
                prog.append(('timeout', sl, rng.choice([0.5, 1, 1, 2, 2, 3, 0]), rng.randint(0, 30)))
            elif kind < 0.72:
                prog.append(('event', sl))
            elif kind < 0.85:
                # the victim joins a child process that returns or raises after a while (its end is an ordinary event, possibly of
                # the very instant at which the victim is interrupted); the child's program is appended at the end
                names += 1
                joins.append((prog, len(prog), names))
                prog.append(('spawn', sl, None, names))
            else:
                prog.append(('anyof', sl, shared + 3 * v, shared + 3 * v + 1))
            prog.append(('yield', sl, rng.choice([0, 0, 1, 1, 1, 2, 3, 11, 12])))
            done.append(sl)
            if rng.random() < 0.3:
                prog.append(('log', 50 + k))
            if rng.random() < 0.2:
                # the victim tries to interrupt ITSELF (slot v holds its own Process, put there by the starter): refused with
                # RuntimeError - on a stretch entered from the event loop, or on one continued after an already processed event
                if rng.random() < 0.6:
                    prog.append(('yield', rng.choice(done), 0))
                prog.append(('interrupt', v, 80 + k))
        if rng.random() < 0.2:
            prog.append(rng.choice([('ret', 7), ('raise', 'KeyError', 3), ('raise', 'Cancelled', 5)]))
        c.progs.append(prog)
    # program nv: the starter spawns the victims into slots 0..nv-1, maybe interrupting at once
    starter = []
    for v in range(nv):
        names += 1
        starter.append(('spawn', v, v, names))
        if rng.random() < 0.25:
            starter.append(('interrupt', v, 90 + v))     # before the victim's first statement has run
    c.progs.append(starter)
    c.mains.append((nv, 1))
    helper = nv + 1        # a bystander process interrupters start between two interrupts (another urgent occurrence)
    c.progs.append([('log', 98)] + ([('timeout', 48, rng.choice([0, 1]), None), ('yield', 48, 0)] if rng.random() < 0.5 else []))
    # interrupters
    for i in range(rng.randint(1, 4)):
        prog = []
        for k in range(rng.randint(1, 4)):
            if joins and rng.random() < 0.25:
                # wake on the timeout a joined child is sleeping on (slot 58), right behind that child: the child's generator
                # ends and, in the same kernel step, the interrupt hits the process that is joining it
                prog += [('yield', 58, 0)]
            else:
                prog += [('timeout', 30 + i, rng.choice([0, 0.5, 1, 1, 2, 2, 3, 4]), None), ('yield', 30 + i, 0)]
            for _ in range(rng.choice([1, 1, 1, 2, 3, 3])):
                prog.append(('interrupt', rng.randrange(nv), 10 * i + k))
                if rng.random() < 0.15:
                    names += 1
                    prog.append(('spawn', 44, helper, names))
        c.progs.append(prog)
        if rng.random() < 0.15:
            # started by the starter into slot 40+i, so that the interrupter can name itself: self-interrupt is refused
            prog.append(('interrupt', 40 + i, 1))
            names += 1
            starter.append(('spawn', 40 + i, len(c.progs) - 1, names))
        else:
            c.mains.append((len(c.progs) - 1, 2 + i))
    if rng.random() < 0.5:
        starter += [('yield', 0, 0)]
    if rng.random() < 0.4:
        # the 'keep waiting' loop among several waiters: P waits for E (slot 50) and yields it again when interrupted; other
        # processes start to wait for E before / after the interrupt; then E occurs: everybody is resumed once, in the order
        # of their CURRENT registrations (P's second yield counts, not its first)
        isev = rng.random() < 0.4
        due = rng.choice([1, 2, 3])
        names += 1
        starter.append(('spawn', 51, len(c.progs), names))
        c.progs.append([('event', 50) if isev else ('timeout', 50, due, rng.randint(0, 30)),
                        ('yield', 50, rng.choice([1, 1, 1, 12])), ('yield', 50, rng.choice([0, 1])), ('log', 60)])
        for j in range(rng.randint(1, 3)):
            c.progs.append([('timeout', 52 + j, rng.choice([0, 0.5, 0.5, 1, 2]), None), ('yield', 52 + j, 0),
                            ('yield', 50, rng.choice([0, 0, 3])), ('log', 61 + j)])
            c.mains.append((len(c.progs) - 1, 30 + j))
        c.progs.append([('timeout', 56, rng.choice([0.5, 1, 1, 2]), None), ('yield', 56, 0), ('interrupt', 51, 77)] +
                       ([('interrupt', 51, 78)] if rng.random() < 0.3 else []))
        c.mains.append((len(c.progs) - 1, 35))
        if isev:
            c.progs.append([('timeout', 57, due, None), ('yield', 57, 0),
                            rng.choice([('succeed', 50, 6), ('fail', 50, 'KeyError', 2), ('fail', 50, 'Cancelled', 2)])])
            c.mains.append((len(c.progs) - 1, 36))
    # co-waiters on the victims' targets, and triggerers of their shared events
    for i in range(rng.randint(0, 3)):
        v = rng.randrange(nv)
        sl = shared + 3 * v + rng.randrange(3)
        prog = [('timeout', 35 + i, rng.choice([0, 0.5, 1]), None), ('yield', 35 + i, 0)]
        if rng.random() < 0.6:
            prog += [('yield', sl, rng.choice([0, 3])), ('log', 70 + i)]
        else:
            prog += [rng.choice([('succeed', sl, 5), ('fail', sl, 'ValueError', 4)])]
        c.progs.append(prog)
        c.mains.append((len(c.progs) - 1, 20 + i))
    # the children the victims join
    for prog, pos, nm in joins:
        c.progs.append([('timeout', 58, rng.choice([0, 0.5, 1, 1, 2]), None), ('yield', 58, 0),
                        rng.choice([('ret', 4), ('ret', None), ('raise', 'KeyError', 6)])])
        prog[pos] = ('spawn', prog[pos][1], len(c.progs) - 1, nm)
    return c
