"""C16 - TCP acknowledgements are cumulative and correct; all data gets through.

Two differentials against the Lean models (`OnlVerif/Tcp/Sink.lean`, `OnlVerif/Tcp/CC.lean`) and two direct oracles:

* sink: arbitrary arrival sequences through the real `TCPSink` vs `driver tcpsink` (ACK and `recv_buffer` after
  every arrival); oracle: the ACK equals the contiguous prefix of the received bytes, recomputed independently
  (fixpoint over the raw arrivals, no sorting or merging), and never decreases.
* closed loop: real `TCPPacketGenerator` + `TCPSink` joined by harness paths that delay per packet (order
  preserving) and drop by transmission index in both directions; every resumption of `run`, hand-off of a wake-up
  token, ACK arrival and timer expiry of the real sender is replayed through the sender LTS (`driver tcpsender`) and
  the public state compared bit for bit after each; oracle: the run ends without exception, `sender.last_ack`
  equals the flow size, `sink.recv_buffer == [[0, size]]`, and on a loss-free path on which every ACK arrives before
  its segment's timer expires every segment is sent exactly once.
* overtaken-ACK leg (same replay, same oracles): closed loops whose RETURN path delays every ACK on its own, so that a later
  cumulative ACK overtakes an earlier one (held ACKs, jitter, application-limited flows - the latter oracle-only); direct oracle:
  the sender's acknowledged mark `last_ack` never decreases (`loop-lastack-decreased`; in the sndk leg `sndk-lastack-decreased`).
"""
from vlib.util import guarded_leg
import collections, copy, itertools, json, random

from harness import tcpsim
from harness.tcpsim import (Environment, Packet, TCPSink, Path, LinkPath, Recorder, SenderRun, make_cc, first_diff, explain_diff,
                            quiet)
from vlib.util import run_driver, split_cases

ASSUMPTIONS = [
    'a path is order-preserving per direction, delays each packet by an arbitrary non-negative amount and drops a finite set of transmission indices (DESIGN §3); the one exception is the loss-free mildly reordering family (see `reordering paths` below)',
    'the flow size is a positive multiple of the MSS (512); flow.finish_time = inf; start_time, arrival_dist, size_dist unset; out attached; ACK packets carry flow_id >= 10000',
    'sequence numbers and sizes are natural numbers; RTT samples are non-negative (an ACK is not stamped in the future)',
    'theorems are over exact rationals; the executable models run at IEEE double and are compared bit for bit with the implementation',
    'retransmission timers behave as C19 proves for Timer (fire at expiry unless stopped; restart from the own callback re-arms at now + tau); the replay re-checks the firing instants',
    'closed-loop liveness is proved only in part (see Props/C16.lean, theorems *_partial); the exploration of drop patterns searches for failing inputs and is not presented as the liveness proof',
]
TRUSTED_EXTRA = ['labelling of kernel steps of the sender from taps and public snapshots (harness/tcpsim.py)',
                 'py2lean/elem.py + elements.py for TCPSink (typed AST-subset translator; the local list `merge_stats` is seen through its last '
                 'element; the frame of packet_arrived - append, sort, loop, assignment - is checked structurally and given its meaning by '
                 'GenSink.genMerge); bridge theorems C16.sink_merge_generated_eq_model, C16.sink_put_generated_eq_model']
BRIDGES = ['C16.sink_merge_generated_eq_model', 'C16.sink_put_generated_eq_model']
EXTRA_MODULES = ('OnlVerif.Props.C16K',)
_PREP = {}
MSS = 512
LOOP_STEP_BUDGET = 60000      # kernel steps per closed loop (the longest sound loop of the generators needs a few thousand)


WINDOW_FIELDS = {'cwnd', 'ssthresh', 'rto', 'srtt', 'dev', 'cubic'}


def window_rules_are_the_cause(impl, model):
    """C16 is about acknowledgements and delivery; the size of the window and the RTO are C17's ("adapts it by the Reno/CUBIC rules",
    "the RTO equals srtt + 4*rttvar").  The sender LTS is replayed step by step on the implementation's own events, so the first line
    on which implementation and model differ shows what they disagree about: if it is a state snapshot that differs only in the
    window / RTO fields (cwnd, ssthresh, rto, srtt, dev, the CUBIC variables), the disagreement is about a window or RTO rule - C17
    replays the same sender LTS and reports it - and is recorded in the evidence, not counted here.  A first difference in what was
    sent, in the acknowledged mark, the duplicate count, the timers or the process state counts, as does any difference at the sink."""
    import re
    d = first_diff(impl, model or [])
    if not d or not (isinstance(d[1], str) and isinstance(d[2], str) and d[1].startswith('S ') and d[2].startswith('S ')):
        return False
    fx = re.findall(r'(\w+)=(\[[^\]]*\]|\S+)', d[1])
    fy = dict(re.findall(r'(\w+)=(\[[^\]]*\]|\S+)', d[2]))
    diff = {k for k, v in fx if fy.get(k) != v} | (set(fy) - {k for k, _ in fx})
    return bool(diff) and diff <= WINDOW_FIELDS


def prepare(ctx):
    """regenerate lean/OnlVerif/Generated/Sink.lean (TCPSink: this property's obligation) from the source under $ONL_REPO.
    `Generated/TcpCC.lean` - the window / RTO rules, which C17 owns - is only *used* here: the closed-loop model runs it, so it is
    refreshed to follow the source, but a translator failure keeps the previous file and is C17's to report, and if the refreshed
    file (or hand-written code over it) no longer compiles the framework falls back to the pinned copy (py2lean/scope.py)"""
    from py2lean import translate, elements
    _PREP['translated'] = elements.TRANSLATED['Sink']
    try:
        used = translate.regenerate_all(only=('TcpCC',), tolerate=True)
        _PREP['used_not_owned'] = {'TcpCC': {'rewritten': used, 'translator_failure_left_to_C17': dict(translate.FAILED)}}
    except Exception as x:      # never this property's obligation
        _PREP['used_not_owned'] = {'TcpCC': {'refresh_failed': repr(x)}}
    _PREP['rewritten'] = translate.regenerate_all(only=('Sink',))
    _PREP['diff_vs_pinned'] = translate.diff_vs_pinned('Sink')


# ---- sink ---------------------------------------------------------------------------------------------------

def gen_sink_case(rng):
    style = rng.choice(['segments', 'segments', 'segments', 'overlap', 'touch', 'tiny'])
    arr = []
    if style == 'segments':
        m = rng.choice([512, 512, 100, 1, rng.randint(1, 1500)])
        n = rng.randint(1, 14)
        idx = list(range(n))
        if rng.random() < 0.4:
            idx = idx[1:] or idx                      # first segment missing (maybe for ever)
        for _ in range(rng.randint(0, 3)):
            if idx and rng.random() < 0.5:
                idx.remove(rng.choice(idx))           # gaps
        r = rng.random()
        if r < 0.6:
            rng.shuffle(idx)
        elif r < 0.8:
            for _ in range(rng.randint(1, 4)):        # local reordering
                if len(idx) > 1:
                    i = rng.randrange(len(idx) - 1)
                    idx[i], idx[i + 1] = idx[i + 1], idx[i]
        for _ in range(rng.randint(0, 5)):
            if idx:
                idx.insert(rng.randrange(len(idx) + 1), rng.choice(idx))   # duplicates
        if rng.random() < 0.5:
            idx.insert(rng.randrange(len(idx) + 1), 0)                     # the first segment shows up late
        arr = [[i * m, m] for i in idx]
    elif style == 'overlap':
        for _ in range(rng.randint(1, 20)):
            arr.append([rng.randint(0, 4000), rng.randint(0 if rng.random() < 0.1 else 1, 1500)])
        if rng.random() < 0.6:
            arr.insert(rng.randrange(len(arr) + 1), [0, rng.randint(1, 1500)])
    elif style == 'touch':
        cuts = sorted(rng.sample(range(1, 3000), rng.randint(1, 10)))
        pieces = [[a, b - a] for a, b in zip([0] + cuts, cuts)]
        rng.shuffle(pieces)
        if rng.random() < 0.3 and len(pieces) > 1:
            pieces.pop(rng.randrange(len(pieces)))
        arr = pieces + [rng.choice(pieces) for _ in range(rng.randint(0, 3))]
    else:
        for _ in range(rng.randint(1, 25)):
            arr.append([rng.randint(0, 12), rng.randint(0, 4)])
    return {'kind': 'sink', 'arrivals': arr}


def prefix_of(ranges):
    """length of the contiguous prefix [0, n) of the union of half-open ranges - by fixpoint, independent of the
    implementation's sort/merge"""
    n = 0
    moved = True
    while moved:
        moved = False
        for s, e in ranges:
            if s <= n < e:
                n = e
                moved = True
    return n


SINK_FLOW_ID = 3            # the flow id of a sink case that names none


def run_sink_impl(case):
    """the arrivals of `case` handed to a real TCPSink as DATA packets of flow `case['flow_id']`; returns the observation lines, the ACK
    numbers the sink returned FOR EACH ARRIVAL (a list per arrival: the packets its `out` was given during that put) and the error"""
    env = Environment()
    with quiet():
        sink = TCPSink(env)
    out = Recorder()
    sink.out = out
    lines, acks = [], []
    err = None
    fid = case.get('flow_id', SINK_FLOW_ID)
    for seq, size in case['arrivals']:
        n = len(out.items)
        try:
            with quiet():
                sink.put(Packet(0.0, size, seq, flow_id=fid))
        except Exception as x:
            lines.append(f'A X {type(x).__name__}')
            err = type(x).__name__
            break
        new = [a.ack for a in out.items[n:]]
        acks.append(new)
        buf = ','.join(f'{s}:{e}' for s, e in sink.recv_buffer)
        # (one line per returned ACK, as the model answers one per arrival; `A none` when the sink kept silent)
        lines.extend([f'A {a} B {buf}' for a in new] or [f'A none B {buf}'])
    return lines, acks, err


def sink_oracle(case, acks, err):
    """the sink clause, restated: "the ACK number a TCPSink returns FOR EVERY ARRIVING SEGMENT equals the length of the contiguous byte
    prefix [0, n) it has received so far ... and therefore never decreases" - whatever (legal) flow id the segments carry: the clause
    names no flow-id range (the ACK class of flow f is f + 10000, so data flow 10000 is answered under 20000).  `acks[i]` = the ACK
    numbers returned during the i-th put: there must be one, and every one must be the prefix length."""
    fails = []
    fid = case.get('flow_id', SINK_FLOW_ID)
    note = f' [segments of data flow {fid}]' if 'flow_id' in case else ''
    if err:
        fails.append({'what': f'TCPSink.put raised {err}' + note, 'signature': f'sink-raise-{err}'})
    got = []
    prev = 0
    for i, mine in enumerate(acks):
        seq, size = case['arrivals'][i]
        got.append((seq, seq + size))
        want = prefix_of(got)
        if not mine:
            fails.append({'what': f'arrival {i} (seq {seq}, size {size}): the sink returned no ACK at all; every arriving segment is answered '
                                  f'with the contiguous prefix length, here {want}' + note, 'signature': 'sink-no-ack'})
            break
        for a in mine:
            if a != want:
                fails.append({'what': f'arrival {i} (seq {seq}, size {size}): ACK {a}, contiguous prefix is {want}' + note,
                              'signature': 'sink-ack-not-prefix'})
                return fails
            if a < prev:
                fails.append({'what': f'arrival {i}: ACK decreased from {prev} to {a}' + note, 'signature': 'sink-ack-decreased'})
                return fails
            prev = a
    return fails


def sink_nontrivial(case):
    """not a plain in-order run of adjacent segments"""
    nxt = 0
    for seq, size in case['arrivals']:
        if seq != nxt:
            return True
        nxt = seq + size
    return False


# ---- closed loop ----------------------------------------------------------------------------------------------

def gen_loop_case(rng, max_seg=40):
    nseg = rng.choice([1, 2, 3, 4, 5, 8, rng.randint(1, max_seg), rng.randint(1, max_seg)])
    cc = rng.choice(['reno', 'cubic'])
    rtt = rng.choice([1.0, 1.0, 0.2, 0.05, 3.0, round(rng.uniform(0.01, 4.0), 3)])

    def delays():
        k = rng.choice([1, 1, 2, 3, 5])
        base = rng.choice([0.001, 0.01, 0.1, 0.1, 0.4, 1.2])
        return [round(base * rng.uniform(0.5, 2.0), 4) if rng.random() < 0.7 else base for _ in range(k)]
    lossless = rng.random() < 0.25
    if rng.random() < 0.08:
        # a long-delay path (satellite hop, or a model that counts in milliseconds) with a matching initial estimate
        rtt = rng.choice([100.0, 150.0, 400.0])
        far = rng.choice([20.0, 35.0, 60.0])
        slow = lambda: [round(far * rng.uniform(0.8, 1.2), 3) for _ in range(rng.choice([1, 2, 3]))]
        lossless = rng.random() < 0.7
    else:
        slow = None
    span = nseg + 12

    def drops():
        if lossless:
            return []
        return sorted(rng.sample(range(span), min(span, rng.choice([0, 1, 1, 2, 3, 4, 6]))))
    c = {'kind': 'loop', 'cc': cc, 'nseg': nseg, 'rtt_estimate': rtt, 'ddelays': (slow or delays)(), 'adelays': (slow or delays)(),
         'ddrops': drops(), 'adrops': drops()}
    if cc == 'reno' and rng.random() < 0.2:
        c['ccmss'] = rng.choice([100, 256, 1000, 1460])      # TCPReno(mss=...): a legal, unusual configuration
    return c


ASSUMPTIONS.append('closed loops with peers: in about a quarter of the random loops a second (sometimes a third) sender + sink pair with its own congestion-control '
                   'object of the same class (Reno: other MSS / initial cwnd / ssthresh), its own flow size, paths, delays and drop sets runs in the same '
                   'Environment, mostly under the same flow id; every pair is replayed through the sender LTS and the sink model as a case of its own and '
                   'judged by the loop and sink oracles on its own events only')


def gen_loop_group(rng, max_seg=40):
    """a closed loop and, in about a quarter of the cases, one or two PEER loops (sender + sink + paths) in the same Environment:
    "the TCPPacketGenerator keeps (re)transmitting until ITS sink holds every segment" - the ACK clock, the timers, the
    in-flight table and the window of one connection are its own, whatever another connection with the same flow id, the
    same sequence numbers and a congestion controller of the same class does next to it."""
    c = gen_loop_case(rng, max_seg)
    if rng.random() < 0.75:
        return c
    c['peers'] = []
    for j in range(rng.choice([1, 1, 1, 2])):
        p = gen_loop_case(rng, min(max_seg, 20))
        p['cc'] = c['cc']
        p.pop('ccmss', None)
        if p['cc'] == 'reno':
            if rng.random() < 0.5:
                p['ccmss'] = rng.choice([100, 256, 512, 1000, 1460])
            p['cwnd0'] = rng.choice([1, 1, 2, 4, 10])                   # initial window, in segments
            p['ssthresh0'] = rng.choice([65535, 65535, 2048, 4096, 1024])
        p['flow_id'] = 0 if rng.random() < 0.6 else j + 1
        p['first'] = rng.random() < 0.3                                 # constructed before the loop under test
        c['peers'].append(p)
    return c


def enum_loop_cases(max_seg, small=False):
    """all drop subsets of size <= 2 over the first transmissions of both directions, for small flows"""
    out = []
    for nseg in range(1, max_seg + 1):
        pos = [('d', i) for i in range(nseg + 3)] + [('a', i) for i in range(nseg + 3)]
        for cc, rtt, dd, ad in ([('reno', 1.0, [0.1], [0.1]), ('cubic', 0.2, [0.05, 0.15], [0.1])] if not small
                                else [('reno', 1.0, [0.1], [0.1])]):
            for k in (0, 1, 2):
                for sub in itertools.combinations(pos, k):
                    out.append({'kind': 'loop', 'cc': cc, 'nseg': nseg, 'rtt_estimate': rtt, 'ddelays': dd, 'adelays': ad,
                                'ddrops': [i for p, i in sub if p == 'd'], 'adrops': [i for p, i in sub if p == 'a']})
    return out


class Late:
    """lets the ACK path be wired before the sender exists"""

    def put(self, p):
        self.target.put(p)


def build_loop(env, case):
    if case.get('reorder'):
        return build_reorder_loop(env, case)
    late = Late()
    sinklog = []
    with quiet():
        sink = TCPSink(env)
    on_ack = lambda a: sinklog.append((a.packet_id, a.ack, copy.deepcopy(sink.recv_buffer[:64])))      # (a sound sink holds few ranges)
    if case.get('aorder') == 'free':     # overtaken-ACK leg (b-fixack): a return path that delays every ACK on its own
        ackpath = FreePath(env, late, case['adelays'], case['adrops'], case.get('ahold'), on_put=on_ack)
    else:
        ackpath = Path(env, late, case['adelays'], case['adrops'], on_put=on_ack)
    sink.out = ackpath
    datapath = Path(env, sink, case['ddelays'], case['ddrops'])
    seg = seg_of(case)
    cc = make_cc(case['cc'], mss=seg, cwnd=max(512, seg) * case.get('cwnd0', 1), ssthresh=case.get('ssthresh0', 65535))
    sr = SenderRun(env, case['cc'], cc, case['rtt_estimate'], case['nseg'] * seg, datapath, flow_id=case.get('flow_id', 0),
                   arrival=case.get('arrival'), sizes=[seg] if case.get('arrival') else None)
    late.target = sr
    return [sr, sink, None, sinklog, datapath, ackpath]


def run_loop_group(case):
    """the loop of `case` and the peer loops of its group in one Environment; returns [(sr, sink, ended, sinklog, datapath, ackpath)],
    the loop under test first, then the peers in the order of case['peers']"""
    env = Environment()
    peers = case.get('peers') or []
    built = {j: build_loop(env, p) for j, p in enumerate(peers) if p.get('first')}
    main = build_loop(env, case)
    for j, p in enumerate(peers):
        if j not in built:
            built[j] = build_loop(env, p)
    group = [main] + [built[j] for j in range(len(peers))]
    ended = main[0].run(peers=[g[0] for g in group[1:]], budget=LOOP_STEP_BUDGET)
    for g in group:
        g[2] = ended
    return [tuple(g) for g in group]


def run_loop_impl(case):
    return run_loop_group(case)[0]


def loop_units(i, c, res):
    """[(key, label, sub-case, result tuple)] of one group"""
    out = [(str(i), '', c, res[0])]
    peers = c.get('peers') or []
    for j, (pc, t) in enumerate(zip(peers, res[1:])):
        cfg = {k: pc[k] for k in ('nseg', 'ccmss', 'cwnd0', 'ssthresh0', 'flow_id') if k in pc}
        out.append((f'{i}.p{j + 1}', f'connection {j + 2} of {len(peers) + 1} in one Environment ({pc["cc"]}, {cfg}): ', pc, t))
    return out


def seg_of(case):
    """the MSS the congestion controller of the case is built with (the flow is a whole number of such segments)"""
    return case.get('ccmss', MSS) if case['cc'] == 'reno' else MSS


def loop_oracle(case, sr, sink, ended):
    fails = []
    size = case['nseg'] * seg_of(case)
    if sr.error and sr.error[0] != 'budget':
        x = sr.error[1]
        fails.append({'what': f'the run raised {type(x).__name__}: {x} (during {sr.error[0]})',
                      'signature': f'loop-raise-{type(x).__name__}'})
        return fails
    if not ended:
        fails.append({'what': f'the run did not end within {sr.steps} kernel steps (last_ack {sr.sender.last_ack} of {size})',
                      'signature': 'loop-no-termination'})
        return fails
    end_time = sr.env.now
    if not (end_time < 1e15):
        fails.append({'what': f'the run only stopped because the clock ran away (now = {end_time}): retransmission timers '
                              f'kept re-arming after last_ack = {sr.sender.last_ack} (flow size {size})',
                      'signature': 'loop-no-termination'})
    # BEGIN b-fixack: "ACKs are cumulative ... the sender's acknowledged mark reaches the end of the data": the mark `last_ack` is the
    # highest cumulative acknowledgement seen so far, so it never moves back - whatever the order in which the path returns the ACKs
    # (an ACK overtaken by a later one acknowledges nothing new).  Read off the public attribute around every event of the sender.
    for r in sr.records:
        if r['after']['lack'] < r['before']['lack']:
            fails.append({'what': f'the sender\'s acknowledged mark moved BACK from {r["before"]["lack"]} to {r["after"]["lack"]} at t={r["now"]} '
                                  f'(event `{r["line"]}`): ACKs are cumulative, an ACK overtaken on the return path by a later one '
                                  f'acknowledges nothing new', 'signature': 'loop-lastack-decreased'})
            break
    # END b-fixack
    # the ACK is cumulative: once last_ack has passed a segment, that segment is acknowledged and is not sent again
    for r in sr.records:
        if r['tag'] in 'AF':
            stale = [q for q, sz, t in r['tx'] if q + sz <= r['before']['lack']]
            if stale:
                fails.append({'what': f'segment {stale[0]} was retransmitted at t={r["now"]} although last_ack was already '
                                      f'{r["before"]["lack"]} (event `{r["line"]}`)',
                              'signature': 'loop-retransmit-acknowledged'})
                break
    back = any(f['signature'] == 'loop-lastack-decreased' for f in fails)
    if sr.sender.last_ack != size and not back:          # (with a mark that moved back, a short final mark is that defect again)
        fails.append({'what': f'the event queue ran empty with sender.last_ack = {sr.sender.last_ack}, flow size {size}',
                      'signature': 'loop-lastack-short'})
    if sink.recv_buffer != [[0, size]]:
        fails.append({'what': f'at the end sink.recv_buffer = {sink.recv_buffer}, wanted [[0, {size}]]',
                      'signature': 'loop-sink-incomplete'})
    if not case['ddrops'] and not case['adrops'] and not case.get('reorder'):
        # (a path that reorders is judged by `reorder_oracle`, which carries the hypothesis about duplicate ACKs)
        # loss-free: if every segment's ACK came back before its timer expired, nothing is sent twice
        # "round-trip time below the sender's current RTO": the RTO is the public attribute `rto` as it stood when the
        # segment was sent (not the expiry the implementation happened to arm its timer with)
        expiry, acked_at = {}, {}
        for r in sr.records:
            if r['tag'] == 'W':
                for q, sz, t in r['tx']:
                    expiry.setdefault(q, r['now'] + r['after']['rto'])
            elif r['tag'] == 'A':
                pid = int(r['line'].split()[4])
                acked_at.setdefault(pid, r['now'])
        timely = all(q in acked_at and acked_at[q] < expiry[q] for q in expiry)
        seqs = [q for q, sz, t in sr.tx.log]
        if timely and len(seqs) != len(set(seqs)):
            dup = [q for q, c in collections.Counter(seqs).items() if c > 1]
            fails.append({'what': f'loss-free path, every ACK back before its RTO, yet segments {dup[:5]} were sent more than once',
                          'signature': 'loop-spurious-retransmit'})
        case['_timely'] = timely
    return fails


# ---- loss-free paths that reorder mildly ---------------------------------------------------------------------
# The random closed loops above run over order-preserving paths, so on a loss-free path the sender never sees a duplicate ACK.
# Real paths reorder now and then (parallel links, a retried link-layer frame): a segment is overtaken by one or two later ones,
# the sink answers the overtaking segments with the old prefix - an isolated run of one or two duplicate ACKs - and nothing is
# lost.  Clause restated (`reorder_oracle`): "Over a loss-free path whose round-trip time stays below the sender's current RTO no
# segment is transmitted twice."  READING: TCP's fast retransmit answers three CONSECUTIVE duplicate ACKs (C17: "the third duplicate
# ACK ... retransmits"), so a path that reorders by three or more positions legitimately provokes a retransmission; the clause is
# demanded only of runs in which every run of consecutive duplicate ACKs that reached the sender is shorter than three.  The
# hypothesis is checked on the trace with the harness's own observations (transmissions counted at the sender's `out`, round-trip
# times from the harness clock, ACK numbers logged where the ACK path hands them to the sender, the public `rto` around every
# event, timer expiries seen by the tap); a case outside it is counted `hypothesis-not-met:<reason>` and not judged.

ASSUMPTIONS.append('reordering paths: a share of the closed loops runs over a loss-free data path that is a serial link (tx seconds per segment, then a '
                   'propagation delay) on which 3-6 chosen transmissions, at least 5 apart, take 1.5 or 2.5 serialisation times longer, so that each is '
                   'overtaken by one or two later segments; the ACK path keeps order. These loops are replayed through the sender LTS and the sink model '
                   'like all others (the models are driven by the events the path produces). "No segment is transmitted twice" is demanded of them only '
                   'when, on the trace, nothing was dropped, no retransmission timer expired, the largest round-trip time lies below the smallest RTO the '
                   'sender ever held, and no three consecutive duplicate ACKs reached the sender (otherwise: hypothesis-not-met, not judged)')


def gen_reorder_case(rng):
    cc = rng.choice(['reno', 'cubic'])
    nseg = rng.randint(28, 64)
    tx = rng.choice([0.001, 0.002, 0.004, 0.01])
    prop = rng.choice([0.02, 0.05, 0.05, 0.1, 0.25])
    aprop = rng.choice([prop, prop, round(prop * rng.uniform(0.5, 1.5), 4)])
    atx = rng.choice([0.0, 0.0, tx / 4])
    idx, i = [], rng.randint(2, 8)
    want = rng.randint(3, 6)
    while len(idx) < want and i < nseg - 1:
        idx.append(i)
        i += rng.randint(5, 12)                    # at least 4 segments in between
    extra = {str(i): rng.choice([1.5, 1.5, 2.5]) * tx for i in idx}
    base = tx + prop + atx + aprop
    rtt0 = max(rng.choice([1.0, 1.0, 3.0, round(base * rng.choice([3, 5, 10]), 4)]), round(1.5 * (base + 0.5 * nseg * tx), 4))
    c = {'kind': 'loop', 'cc': cc, 'nseg': nseg, 'rtt_estimate': rtt0, 'ddelays': [tx + prop], 'adelays': [atx + aprop], 'ddrops': [], 'adrops': [],
         'reorder': {'tx': tx, 'prop': prop, 'atx': atx, 'aprop': aprop, 'extra': extra}}
    if cc == 'reno' and rng.random() < 0.2:
        c['ccmss'] = rng.choice([100, 256, 1000, 1460])
    if cc == 'reno' and rng.random() < 0.3:
        c['cwnd0'] = rng.choice([2, 4, 10])
    return c


def build_reorder_loop(env, case):
    ro = case['reorder']
    late = Late()
    sinklog = []
    with quiet():
        sink = TCPSink(env)
    cur = [None]                 # the data transmission the sink is being handed right now
    tags = []                    # ACK transmission j answers data transmission tags[j]

    def ack_put(a):
        tags.append(cur[0])
        sinklog.append((a.packet_id, a.ack, copy.deepcopy(sink.recv_buffer[:64])))

    def ack_deliver(j, a):
        ackpath.acknos.append(a.ack)
        if tags[j] is not None:
            ackpath.rtts.append(env.now - datapath.sent[tags[j]])
    ackpath = LinkPath(env, late, ro['atx'], ro['aprop'], None, on_put=ack_put, on_deliver=ack_deliver)
    ackpath.acknos, ackpath.rtts = [], []
    sink.out = ackpath
    datapath = LinkPath(env, sink, ro['tx'], ro['prop'], ro['extra'], on_deliver=lambda i, p: cur.__setitem__(0, i))
    seg = seg_of(case)
    cc = make_cc(case['cc'], mss=seg, cwnd=max(512, seg) * case.get('cwnd0', 1), ssthresh=case.get('ssthresh0', 65535))
    sr = SenderRun(env, case['cc'], cc, case['rtt_estimate'], case['nseg'] * seg, datapath, flow_id=case.get('flow_id', 0))
    late.target = sr
    return [sr, sink, None, sinklog, datapath, ackpath]


def dup_runs(acknos):
    """lengths of the runs of consecutive duplicate ACKs in the sequence of ACK numbers handed to the sender (an ACK is a duplicate
    when it repeats the number of the ACK before it; before the first one the acknowledged mark is 0)"""
    runs, run, prev = [], 0, 0
    for a in acknos:
        if a == prev:
            run += 1
        else:
            if run:
                runs.append(run)
            run = 0
        prev = a
    if run:
        runs.append(run)
    return runs


def reorder_oracle(case, sr, sink, ended, dpath, apath):
    """-> (failures, verdict).  "Over a loss-free path whose round-trip time stays below the sender's current RTO no segment is
    transmitted twice", for paths that reorder; the hypothesis is checked on the trace first (see the section comment)"""
    if (sr.error and sr.error[0] != 'budget') or not ended or sr.sender.last_ack != case['nseg'] * seg_of(case):
        return [], 'not-judged:run-failed-or-incomplete(reported-by-the-loop-oracle)'
    if dpath.dropped or apath.dropped or dpath.delivered != dpath.n or apath.delivered != apath.n:
        return [], 'hypothesis-not-met:a-packet-was-not-delivered'
    if any(r['tag'] == 'F' for r in sr.records):
        return [], 'hypothesis-not-met:a-retransmission-timer-expired'
    rtos = [r[k]['rto'] for r in sr.records for k in ('before', 'after')]
    if not rtos or not apath.rtts:
        return [], 'not-judged:no-events'
    max_rtt, min_rto = max(apath.rtts), min(rtos)
    if not max_rtt < min_rto:
        return [], 'hypothesis-not-met:a-round-trip-time-not-below-every-rto'
    runs = dup_runs(apath.acknos)
    if runs and max(runs) >= 3:
        return [], 'hypothesis-not-met:three-or-more-consecutive-duplicate-acks'
    seqs = [q for q, sz, t in sr.tx.log]
    twice = sorted(q for q, n in collections.Counter(seqs).items() if n > 1)
    if twice:
        overt = [i for k, i in enumerate(dpath.order) if any(j > i for j in dpath.order[:k])]
        return [{'what': f'loss-free path that reorders mildly ({len(overt)} of {dpath.n} transmissions were overtaken by later ones; nothing dropped in either '
                         f'direction), largest round-trip time {max_rtt:.6g} < smallest RTO the sender ever held {min_rto:.6g}, no retransmission timer '
                         f'expired, duplicate ACKs reached the sender only in runs of {sorted(set(runs))} (never three in a row; {len(runs)} runs), yet '
                         f'segment(s) {twice[:5]} were transmitted twice', 'signature': 'loop-reorder-spurious-retransmit'}], 'judged'
    return [], 'judged'

# ---- BEGIN overtaken-ACK leg (b-fixack): return paths on which a later ACK overtakes an earlier one ------------------------------
ASSUMPTIONS.append('overtaken-ACK loops (a family of their own, drawn from their own random stream): the DATA path is order-preserving as above, the '
                   'RETURN path delays every ACK on its own (delay list cycled by transmission index plus a per-index hold, no clamping to the '
                   'previous delivery), so a later cumulative ACK can overtake an earlier one - by a fraction of a round trip up to many windows; '
                   'some of these flows are application-limited (flow.arrival_dist / size_dist: one MSS-sized write every so often): those are '
                   'outside the sender LTS and are judged by the direct oracles only (counted separately)')


class FreePath(Path):
    """one-way path that is NOT order-preserving: the i-th packet put into it is dropped if i is in `drops`, else delivered after
    `delays[i % len(delays)] + hold.get(i, 0)` - independently of the packets before it (packets of one flow taking different routes)"""

    def __init__(self, env, out, delays, drops=(), hold=None, on_put=None):
        Path.__init__(self, env, out, delays, drops, on_put)
        self.hold = {int(k): float(v) for k, v in (hold or {}).items()}

    def put(self, p):
        i = self.n
        self.n += 1
        if self.on_put:
            self.on_put(p)
        if i in self.drops:
            self.dropped.append(i)
            return
        ev = self.env.timeout(self.delays[i % len(self.delays)] + self.hold.get(i, 0.0))
        ev.callbacks.append(lambda e, p=p: self._deliver(p))


def demo_overtake_cases():
    """the two scenarios of findings/demos/C16_stale_ack.py: (1) a bulk flow of 3 segments under a window of 3 segments whose first ACK is
    held one second - it is overtaken by ACKs 2 and 3; (2) an application-limited flow (one segment every 5 s) whose second ACK is held
    402.5 s and arrives while nothing is outstanding"""
    return [{'kind': 'loop', 'cc': 'reno', 'nseg': 3, 'rtt_estimate': 10.0, 'ddelays': [0.1], 'adelays': [0.1], 'ddrops': [], 'adrops': [],
             'cwnd0': 3, 'aorder': 'free', 'ahold': {'0': 1.0}},
            {'kind': 'loop', 'cc': 'reno', 'nseg': 200, 'rtt_estimate': 10.0, 'ddelays': [0.1], 'adelays': [0.1], 'ddrops': [], 'adrops': [],
             'cwnd0': 1, 'ssthresh0': 1024, 'aorder': 'free', 'ahold': {'1': 402.5}, 'arrival': [5.0]}]


def gen_overtake_case(rng):
    """a closed loop whose return path lets later ACKs overtake earlier ones on purpose.  Shapes: `hold` - a few ACKs (by transmission
    index) are held back by a fraction of a round trip up to many round trips / RTOs (so they arrive after the window has moved on by more
    than a window, or after everything else, when nothing is outstanding any more); `jitter` - every ACK gets its own delay from a wide
    list; `app` - an application-limited flow (one segment every `gap` seconds) with held ACKs.  Initial windows of several segments
    (Reno) so that several ACKs are in flight at once; some drops in both directions."""
    shape = rng.choice(['hold', 'hold', 'hold', 'jitter', 'jitter', 'app'])
    cc = rng.choice(['reno', 'reno', 'cubic'])
    nseg = rng.choice([2, 3, 3, 4, 5, 6, 8, 12, rng.randint(2, 30)])
    base = rng.choice([0.01, 0.1, 0.1, 0.4])
    rtt = rng.choice([1.0, 0.5, 3.0, 10.0, round(2.5 * base, 3)])
    c = {'kind': 'loop', 'cc': cc, 'nseg': nseg, 'rtt_estimate': rtt, 'ddelays': [base], 'adelays': [base], 'ddrops': [], 'adrops': [],
         'aorder': 'free'}
    if cc == 'reno':
        c['cwnd0'] = rng.choice([2, 3, 4, 4, 10, nseg])
        c['ssthresh0'] = rng.choice([65535, 65535, 2048, 1024])
        if rng.random() < 0.15:
            c['ccmss'] = rng.choice([256, 1000, 1460])
    span = 2 * nseg + 4
    if shape in ('hold', 'app'):
        hold = {}
        for _ in range(rng.choice([1, 1, 2, 3])):
            i = rng.randrange(0, max(1, min(span, nseg + 2)))
            hold[str(i)] = round(rng.choice([0.6 * base, 2 * base, 5 * base, 20 * base, rtt, 3 * rtt, 7 * rtt, 40 * rtt]) * rng.uniform(0.8, 1.3), 4)
        c['ahold'] = hold
    else:
        c['adelays'] = [round(base * rng.choice([0.2, 0.5, 1, 1, 2.5, 6, 15]), 4) for _ in range(rng.choice([2, 3, 5, 7]))]
    if shape == 'app':
        c['arrival'] = [rng.choice([5 * base, 20 * base, 5.0, round(rng.uniform(2 * base, 30 * base), 3)])]
        c['nseg'] = rng.choice([5, 10, 20, 40, rng.randint(3, 60)])
        # an ACK held across many writes: it arrives when the window has long moved on / nothing is outstanding
        c['ahold'] = {str(rng.randrange(0, 4)): round(c['arrival'][0] * rng.choice([0.5, 2.5, 10.5, 0.45 * c['nseg']]), 4)}
        if rng.random() < 0.5:
            c['ahold'][str(rng.randrange(0, c['nseg']))] = round(c['arrival'][0] * rng.uniform(0.3, 6.0), 4)
    if rng.random() < 0.3:
        c['ddrops'] = sorted(rng.sample(range(span), rng.choice([1, 1, 2])))
    if rng.random() < 0.3:
        c['adrops'] = sorted(rng.sample(range(span), rng.choice([1, 1, 2])))
    return c


def overtaken_acks(sr):
    """number of ACK events of the run whose number lies below the acknowledged mark they met"""
    return sum(1 for r in sr.records if r['tag'] == 'A' and int(r['line'].split()[3]) < r['before']['lack'])
# ---- END overtaken-ACK leg ----


# ---- data flow ids -------------------------------------------------------------------------------------------

ASSUMPTIONS.append('data flow ids: any non-negative integer - a share of the sink sequences and closed loops (about one in ten) carries a DATA flow id of '
                   '10000 or more (10000, 12345, 10000*tenant+i, ...): the library marks the ACK of flow f by f + 10000 and the sender only asserts '
                   'ack.flow_id >= 10000, so such flows are legal and C16 names no flow-id range (the "fewer than 10000 flows" reading of DESIGN 3 is '
                   "C18's, for forwarding tables that hold both classes); neither model takes the data flow id (the sink model sees seq/size, the sender "
                   'LTS sees the ACK with the id it arrived under), so these cases are replayed through the models like all others')
FLOW_ID_SHARE = 0.12          # share of the cases that name their flow id (of these ~85 % at or above 10000)


def gen_flow_id(rng):
    """a legal DATA flow id for a sink sequence / a closed loop: mostly at or above the ACK offset 10000 (a simulation with many thousands of
    numbered flows; ids composed as 10000*tenant + i; the boundary 10000 itself; ids above the ACK class of small flows), sometimes a
    small or boundary id below it"""
    r = rng.random()
    if r < 0.25:
        return rng.choice([10000, 10000, 10001, 19999, 20000])
    if r < 0.50:
        return 10000 * rng.randint(1, 9) + rng.randint(0, 99)
    if r < 0.70:
        return rng.choice([12345, 30000, 65535, 99999])
    if r < 0.85:
        return rng.randint(10000, 10 ** 6)
    return rng.choice([0, 1, 7, 5000, 9998, 9999])


def assign_flow_ids(cases, rng):
    """the flow-id range of the workload: a share of the generated sink sequences and closed loops is run under an explicit data flow id
    (`case['flow_id']`; without it a sink case uses SINK_FLOW_ID and a loop flow 0).  Peer connections of a group keep their relation to the
    loop under test (same id, or id + j).  Drawn from a stream of its own, so the arrival sequences / paths of a seed are what they were."""
    for c in cases:
        pick, fid = rng.random() < FLOW_ID_SHARE, gen_flow_id(rng)
        if not pick or c.get('kind') not in ('sink', 'loop'):
            continue
        c['flow_id'] = fid
        for p in c.get('peers') or []:
            p['flow_id'] = fid + p.get('flow_id', 0)


# ---- the check ------------------------------------------------------------------------------------------------

def model_batch(mode, texts, chunk=400):
    out = {}
    for i in range(0, len(texts), chunk):
        out.update(split_cases(run_driver(mode, '\n'.join(texts[i:i + chunk]) + '\n')))
    return out


def load_replay(path):
    j = json.load(open(path))
    cases = []
    if j.get('case'):
        cases.append(j['case'])
    for d in j.get('broken_correspondence') or []:
        if d.get('case'):
            cases.append(d['case'])
    return cases


def clean(case):
    out = {k: v for k, v in case.items() if not k.startswith('_')}
    if out.get('peers'):
        out['peers'] = [clean(p) for p in out['peers']]
    return out



# ---- BEGIN sndk leg: the TCP sender as processes on the kernel MODEL (lean/OnlVerif/Tcp/SenderOnK.lean, driver mode `sndk`) ----
ASSUMPTIONS.append('the sender process on the real kernel refines the sender LTS: checked by replay (labels from taps and public snapshots); for the '
                   'sender written as processes on the kernel MODEL (run, put, timeout_callback, resend_packet, one Timer process per segment, a '
                   'network-script process) it is a theorem (Props/C16K.lean: every kernel step is an accepted LTS action sequence, no step crashes; '
                   'finite flow size = n*mss, Reno or CUBIC, ACKs not stamped in the future), and that program is compared bit for bit with the '
                   'real TCPPacketGenerator under ACK scripts (sndk leg)')


@guarded_leg(None)
def run_sndk(ctx, res=None):
    """Extra leg for Props/C16K.lean: the K program of the TCP sender (run / put / timeout_callback / resend_packet, one Timer
    process per segment, a network-script process delivering ACKs into put), run at Float by the compiled driver, against the
    real TCPPacketGenerator with a real script process on the real kernel under env.run(until=T) (public API only: a recording
    `out`, public attributes), compared line for line: how run() ended, every transmission (seq, env.now bits), the final
    attributes, timers, in-flight table, wake-up tokens.  Scripts: the ACK deliveries recorded from a real closed loop
    (sender + sink + lossy delaying paths), replayed open-loop and perturbed (extra duplicates, stale and premature ACK numbers,
    foreign packet ids, swaps, truncation), plus purely random ACK lists.  Oracle (C16 'never raises', C17 'send_in_window',
    restated over the implementation's own observations): the run raises nothing; every first transmission of a segment is
    MSS-sized, consecutive, and was sent with next_seq + mss <= min(send_buffer, last_ack + cwnd); cwnd >= mss at the end.
    Called twice from run(): without `res` it answers whether ctx.replay is a replay of this leg (then only this leg runs);
    with the result dict of the main leg it appends its coverage / disagreements / failures."""
    from vlib.util import bits

    def replay_cases():
        cs = load_replay(ctx.replay)
        return [c for c in cs if isinstance(c, dict) and c.get('kind') == 'sndk']

    if res is None:
        if not (ctx.replay and replay_cases()):
            return None
        res = {'coverage': {'evaluations': 0, 'distinct_nontrivial': 0, 'rule': 'replay of an sndk case', 'samples': []},
               'disagreements': [], 'oracle_failures': []}
        run_sndk(ctx, res)
        k = res['coverage']['sender_on_kernel_model']
        res['coverage'].update(evaluations=k['evaluations'], distinct_nontrivial=k['distinct_nontrivial'], samples=[k['sample']])
        return res

    def cc_of(c):
        return make_cc(c['cc'], mss=c['mss'], cwnd=c['cwnd0'], ssthresh=c['ssthresh0'])

    def record_loop(rng, c):
        """the ACK deliveries (instant, flow id, ackno, packet id, stamp) of a real closed loop with the case's sender"""
        env = Environment()
        late = Late()
        with quiet():
            sink = TCPSink(env)
        got = []

        class Tap:
            def put(self, a):
                got.append((env.now, a.flow_id, a.ack, a.packet_id, a.time))
                late.target.put(a)
        span = c['nseg'] + 10
        ndrop = rng.choice([0, 0, 1, 1, 2, 3])
        sink.out = Path(env, Tap(), c['adelays'], sorted(rng.sample(range(span), ndrop)) if rng.random() < 0.5 else [])
        datapath = Path(env, sink, c['ddelays'], sorted(rng.sample(range(span), ndrop)))
        flow = tcpsim.Flow(flow_id=0, src='s', dst='d', finish_time=tcpsim.INF, size=c['nseg'] * c['mss'])
        with quiet():
            snd = tcpsim.TCPPacketGenerator(env, flow, cc_of(c), rtt_estimate=c['rtt'])
        snd.out = datapath
        late.target = snd
        n = 0
        try:
            with quiet():
                while env.peek() != tcpsim.INF and n < 4000:
                    env.step()
                    n += 1
        except Exception:      # noqa - the main leg judges closed loops; here the loop only supplies a script
            pass
        return got

    def gen(rng, cid):
        kind = rng.choice(['reno', 'reno', 'cubic'])
        mss = 512 if kind == 'cubic' else rng.choice([512, 512, 512, 100, 1000, 1460])
        nseg = rng.choice([1, 2, 3, 3, 4, 5, 6, 8, 12, rng.randint(1, 24)])
        c = {'cid': f'k{cid}', 'kind': 'sndk', 'cc': kind, 'mss': mss, 'nseg': nseg,
             'cwnd0': mss * (1 if kind == 'cubic' else rng.choice([1, 1, 1, 2, 4, 10])),
             'ssthresh0': 65535 if kind == 'cubic' else rng.choice([65535, 65535, 2 * mss, 4 * mss, 1024, 3000]),
             'rtt': rng.choice([1.0, 1.0, 0.2, 0.05, 3.0, round(rng.uniform(0.01, 4.0), 3)])}
        base = rng.choice([0.001, 0.01, 0.1, 0.1, 0.4, 1.2])
        c['ddelays'] = [round(base * rng.uniform(0.5, 2.0), 4) for _ in range(rng.choice([1, 2, 3]))]
        c['adelays'] = [round(base * rng.uniform(0.5, 2.0), 4) for _ in range(rng.choice([1, 2, 3]))]
        shape = rng.choice(['loop', 'loop', 'loop', 'perturbed', 'perturbed', 'random'])
        acks = []
        if shape != 'random':
            prev = 0.0
            for t, fid, ackno, pid, st in record_loop(rng, c):
                acks.append([t - prev, fid, ackno, pid, st])
                prev = t
        if shape == 'random' or not acks:
            t = 0.0
            for _ in range(rng.randint(0, 3 * nseg + 4)):
                gap = rng.choice([0.0, 0.0, base, 2 * base, round(rng.uniform(0, 4 * base), 4), c['rtt'], 2 * c['rtt']])
                t += gap
                k = rng.randint(0, nseg + 1)
                acks.append([gap, 10000, k * mss if rng.random() < 0.9 else rng.randint(0, (nseg + 1) * mss),
                             rng.randint(0, nseg) * mss, max(0.0, t - rng.choice([base, 2 * base, 0.0, t]))])
        if shape == 'perturbed':
            for _ in range(rng.randint(1, 4)):
                if not acks:
                    break
                i = rng.randrange(len(acks))
                op = rng.choice(['dup', 'dup3', 'stale', 'ahead', 'pid', 'swap', 'cut', 'zero'])
                if op == 'dup':
                    acks.insert(i, list(acks[i]))
                elif op == 'dup3':
                    acks[i:i] = [[0.0] + acks[i][1:] for _ in range(3)]
                elif op == 'stale':
                    acks.insert(i, [acks[i][0], 10000, rng.randint(0, max(0, acks[i][2] // mss)) * mss, acks[i][3], acks[i][4]])
                elif op == 'ahead':
                    acks[i][2] += mss * rng.randint(1, 3)
                elif op == 'pid':
                    acks[i][3] = rng.randint(0, nseg + 2) * mss
                elif op == 'swap' and i + 1 < len(acks):
                    acks[i][2:], acks[i + 1][2:] = acks[i + 1][2:], acks[i][2:]
                elif op == 'cut':
                    del acks[i:]
                elif op == 'zero':
                    acks[i][0] = 0.0
        c['acks'] = acks
        end = sum(a[0] for a in acks)
        c['until'] = end + rng.choice([0.5, 5.0, 40.0, 40.0, 300.0]) * max(c['rtt'], 0.1)
        return c

    def text(c):
        cc = cc_of(c)
        return ([f"CASE {c['cid']} {c['cc']} {c['mss']} {c['nseg'] * c['mss']} {bits(c['rtt'])} {bits(c['until'])} 60000",
                 'CC ' + ' '.join(tcpsim.fb(getattr(cc, f, 0)) for f in tcpsim.CC_LINE_FIELDS)]
                + [f'ack {bits(g)} {fid} {ackno} {pid} {bits(st)}' for g, fid, ackno, pid, st in c['acks']] + ['END'])

    def impl(c):
        env = Environment()
        flow = tcpsim.Flow(flow_id=0, src='s', dst='d', finish_time=tcpsim.INF, size=c['nseg'] * c['mss'])
        cc = cc_of(c)
        with quiet():
            snd = tcpsim.TCPPacketGenerator(env, flow, cc, rtt_estimate=c['rtt'])
        txs, win = [], []
        marks = []      # (b-fixack) (instant, ackno, last_ack before put, last_ack after put) of every delivered ACK: public attribute

        class Rec:
            def put(self, p):
                txs.append(f'tx {p.packet_id} {bits(env.now)}')
                # the public attributes at the moment of the hand-over (first transmissions: next_seq has not moved yet)
                win.append((p.packet_id, p.size, snd.next_seq, snd.send_buffer, snd.last_ack, cc.cwnd))
        snd.out = Rec()

        def script():
            for gap, fid, ackno, pid, st in c['acks']:
                yield env.timeout(gap)
                a = Packet(st, 40, pid, flow_id=fid)
                a.ack = ackno
                before = snd.last_ack
                snd.put(a)
                marks.append((env.now, ackno, before, snd.last_ack))
        env.process(script())
        try:
            with quiet():
                env.run(until=c['until'])
            tag = 'RET'
        except BaseException as x:        # noqa - the property says the run never raises
            tag = f'RAISED {type(x).__name__}'
        proc = 'F' if not snd.action.is_alive else ('B' if len(snd.cwnd_avaialbe.get_queue) == 1 else 'R')
        lines = [tag] + txs + [
            f'attrs nseq={snd.next_seq} buf={snd.send_buffer} lack={snd.last_ack} dup={snd.dupack} srtt={tcpsim.fb(snd.rtt_estimate)} '
            f'dev={tcpsim.fb(snd.est_deviation)} rto={tcpsim.fb(snd.rto)}',
            'cc ' + ' '.join(tcpsim.fb(getattr(cc, f, 0)) for f in tcpsim.CC_LINE_FIELDS),
            'timers ' + ','.join(f'{k}@{tcpsim.fb(t.expire_time)}' for k, t in snd.timers.items()),
            'sent ' + ','.join(f'{k}@{tcpsim.fb(p.time)}' for k, p in snd.sent_packets.items()),
            f'tok={len(snd.cwnd_avaialbe.items)} proc={proc}', f'now {bits(env.now)}']
        c['_marks'] = marks
        return lines, win, cc

    def oracle_k(c, lines, win, cc):
        if lines[0] != 'RET':
            return [{'what': f'the run of the sender under the ACK script ended with {lines[0]}', 'signature': 'sndk-raised'}]
        # (b-fixack) C16 "ACKs are cumulative": the acknowledged mark never moves back, whatever ACK numbers arrive in whatever order
        for t, ackno, before, after in c.get('_marks', []):
            if after < before:
                return [{'what': f'put(ACK {ackno}) at t={t} moved the sender\'s acknowledged mark BACK from {before} to {after}: ACKs are '
                                 f'cumulative, an ACK below the mark acknowledges nothing new', 'signature': 'sndk-lastack-decreased'}]
        seen, nxt = set(), 0
        for pid, size, nseq, buf, lack, cwnd in win:
            if pid in seen:
                continue
            seen.add(pid)
            if pid != nxt or size != c['mss']:
                return [{'what': f'new segment {pid} (size {size}) is not the MSS-sized successor of the previous one (expected {nxt})',
                         'signature': 'sndk-not-consecutive'}]
            if not (nseq == pid and pid + c['mss'] <= min(buf, lack + cwnd)):
                return [{'what': f'new segment {pid} sent with next_seq={nseq}, send_buffer={buf}, last_ack={lack}, cwnd={cwnd}: '
                                 f'outside min(send_buffer, last_ack + cwnd)', 'signature': 'sndk-window'}]
            nxt = pid + size
        if not cc.cwnd >= cc.mss:
            return [{'what': f'cwnd {cc.cwnd} below one MSS ({cc.mss}) at the end', 'signature': 'sndk-cwnd-below-mss'}]
        return []

    rng = random.Random(f'C16-sndk-{ctx.seed}')
    cases = replay_cases() if ctx.replay else [gen(rng, i) for i in range(200 if ctx.quick else 3000)]
    got = {}
    for c in cases:
        got[c['cid']] = impl(c)
    model = model_batch('sndk', ['\n'.join(text(c)) for c in cases], 300) if cases else {}
    h, nontriv = collections.Counter(), 0
    dis, orc = res['disagreements'], res['oracle_failures']
    for c in cases:
        (a, win, cc), b = got[c['cid']], model.get(c['cid'])
        if a != b:
            d = first_diff(a, b)
            dis.append({'case': clean(c), 'detail': f'sndk line {d[0]}: impl `{d[1][:300]}` model `{d[2][:300]}`',
                        'impl': a[:300], 'model': (b or [])[:300]})
        for f in oracle_k(c, a, win, cc):
            f['case'] = clean(c); f['trace'] = a[:300]
            orc.append(f)
        seqs = [w[0] for w in win]
        retx = len(seqs) - len(set(seqs))
        h['acks delivered'] += len(c['acks']); h['transmissions'] += len(seqs); h['retransmissions'] += retx
        h['acks delivered below the acknowledged mark (overtaken / stale)'] += sum(1 for t, k, b4, af in c.get('_marks', []) if k < b4)
        h[f"cc:{c['cc']}"] += 1
        h['runs with all data acknowledged'] += 1 if a[0] == 'RET' and f"lack={c['nseg'] * c['mss']} " in a[len(seqs) + 1] else 0
        h['runs ending with live timers'] += 1 if not any(l == 'timers ' for l in a) else 0
        if retx:
            nontriv += 1
    res['coverage']['sender_on_kernel_model'] = {
        'evaluations': len(cases), 'distinct_nontrivial': nontriv, 'lines_compared': sum(len(v[0]) for v in got.values()),
        'rule': 'ACK scripts (deliveries recorded from real closed loops with drops, perturbed copies of them, random ACK lists) x Reno '
                '(several MSS / initial windows / ssthresh) and CUBIC, run by the K program at Float (driver mode sndk) and by the real '
                'TCPPacketGenerator with a real script process under env.run(until=T); non-trivial = at least one retransmission '
                '(timeout or fast retransmit)', 'histogram': dict(sorted(h.items())),
        'sample': {k: (v[:6] if k == 'acks' else v) for k, v in clean(cases[0]).items()} if cases else None}
    return None
# ---- END sndk leg ----


def run(ctx):
    sk = run_sndk(ctx)                       # sndk leg: a replay of one of its cases runs only that leg
    if sk is not None:
        return sk
    rng = random.Random(f'C16-{ctx.seed}')
    if ctx.replay:
        cases = load_replay(ctx.replay)
    else:
        n_sink, n_loop = (3000, 1000) if ctx.quick else (20000, 5000)
        cases = [{'kind': 'sink', 'arrivals': [[512, 512], [0, 512], [1024, 512], [0, 512]]}]
        cases += [gen_sink_case(rng) for _ in range(n_sink)]
        cases += enum_loop_cases(4, small=True) if ctx.quick else enum_loop_cases(8)
        cases += [gen_loop_group(rng) for _ in range(n_loop)]
        cases += [gen_reorder_case(rng) for _ in range(80 if ctx.quick else 1200)]
        assign_flow_ids(cases, random.Random(f'C16-flowids-{ctx.seed}'))
        orng = random.Random(f'C16-overtake-{ctx.seed}')         # overtaken-ACK leg (b-fixack): a stream of its own
        cases += demo_overtake_cases() + [gen_overtake_case(orng) for _ in range(160 if ctx.quick else 2500)]
    disagreements, oracle_failures = [], []
    hist = collections.Counter()
    samples = []
    nontrivial = set()

    # sinks
    sinks = [(i, c) for i, c in enumerate(cases) if c['kind'] == 'sink']
    impl = {}
    for i, c in sinks:
        impl[i] = run_sink_impl(c)
    model = model_batch('tcpsink', [f'CASE {i}\n' + '\n'.join(f'P {s} {z}' for s, z in c['arrivals']) + '\nEND'
                                    for i, c in sinks], 2000)
    for i, c in sinks:
        lines, acks, err = impl[i]
        m = model.get(str(i))
        hist['sink-arrivals'] += len(c['arrivals'])
        if sink_nontrivial(c):
            nontrivial.add(json.dumps(c['arrivals']))
            hist['sink-out-of-order-or-overlapping'] += 1
        if any(s != 0 for s, z in c['arrivals'][:1]):
            hist['sink-first-segment-late-or-missing'] += 1
        if 'flow_id' in c:
            hist['sink-data-flow-id-' + ('10000-or-more' if c['flow_id'] >= 10000 else 'named-below-10000')] += 1
        if lines != m:
            d = first_diff(lines, m)
            disagreements.append({'case': c, 'detail': f'sink arrival {d[0]}: impl `{d[1]}` model `{d[2]}`',
                                  'impl': lines[:60], 'model': (m or [])[:60]})
        for f in sink_oracle(c, acks, err):
            f.update(case=c, trace=lines[:60])
            oracle_failures.append(f)
        if len(samples) < 1 and sink_nontrivial(c) and len(c['arrivals']) >= 4:
            samples.append({'sink_arrivals': c['arrivals'], 'acks': [a for l in acks for a in l]})

    # closed loops
    loops = [(i, c) for i, c in enumerate(cases) if c['kind'] == 'loop']
    units = []
    stuck = 0
    for n, (i, c) in enumerate(loops):
        res = run_loop_group(c)
        units += [(key, label, uc, c, t) for key, label, uc, t in loop_units(i, c, res)]
        if not res[0][2] or res[0][0].error:
            stuck += 1
            if stuck >= 8:
                # loop after loop fails to end: each costs its whole step budget and the finding is established
                dropped = {j for j, _ in loops[n + 1:]}
                loops = loops[:n + 1]
                cases = [cc for j, cc in enumerate(cases) if j not in dropped]
                break
    smodel = model_batch('tcpsender', [t[0].text(key) for key, label, uc, c, t in units if not uc.get('arrival')], 300)
    kmodel = model_batch('tcpsink', [f'CASE {key}\n' + '\n'.join(f'P {pid} {t[0].sender.mss}' for pid, a, b in t[3]) + '\nEND'
                                     for key, label, uc, c, t in units], 500)
    lines_compared = 0
    rhist, rnontriv = collections.Counter(), set()
    foreign = {'count': 0, 'why': window_rules_are_the_cause.__doc__.strip(), 'samples': []}
    for key, label, uc, top, t in units:
        sr, sink, ended, sinklog, dpath, apath = t
        c = uc
        # (b-fixack) an application-limited flow (arrival_dist) is outside the sender LTS: judged by the direct oracles only
        m = smodel.get(key) if not uc.get('arrival') else sr.trace
        lines_compared += len(sr.trace) if not uc.get('arrival') else 0
        if uc.get('aorder') == 'free':
            n_over = overtaken_acks(sr)
            hist['overtake-loops'] += 1
            hist['overtake-loops-application-limited-oracle-only'] += 1 if uc.get('arrival') else 0
            hist['overtake-loops-in-which-an-ack-was-overtaken'] += 1 if n_over else 0
            hist['overtaken-acks-delivered'] += n_over
            if n_over:
                nontrivial.add(json.dumps(clean(top), sort_keys=True))
        if label:
            hist['peer-connections'] += 1
            hist['peer-connections-same-flow-id'] += 1 if uc.get('flow_id', 0) == top.get('flow_id', 0) else 0
            hist['peer-connections-retransmissions'] += sum(len(r['tx']) for r in sr.records if r['tag'] in 'AF')
        elif top.get('peers'):
            hist['loops-with-peer-connections'] += 1
        for r in sr.records:
            hist['ev-' + r['tag']] += 1
            if r['tag'] == 'A':
                b, a = r['before'], r['after']
                if int(r['line'].split()[3]) < b['lack']:
                    hist['ack-overtaken-below-the-mark'] += 1
                elif a['dup'] == 0:
                    hist['ack-new'] += 1
                    if b['dup'] in (1, 2):
                        hist['ack-new-after-1-or-2-duplicates'] += 1
                    if len(b['timers']) - len(a['timers']) > 1:
                        hist['ack-new-stops-several-timers'] += 1
                elif a['dup'] == 3:
                    hist['ack-third-duplicate'] += 1
                elif a['dup'] > 3:
                    hist['ack-more-duplicates'] += 1
                else:
                    hist['ack-duplicate-1-2'] += 1
            if r['tx'] and r['tag'] in 'AF':
                hist['retransmissions'] += len(r['tx'])
        hist['loop-' + c['cc']] += 1
        if 'flow_id' in top:
            hist['loop-data-flow-id-' + ('10000-or-more' if c.get('flow_id', 0) >= 10000 else 'named-below-10000')] += 1
        hist[f'loop-drops-{min(len(c["ddrops"]) + len(c["adrops"]), 4)}{"+" if len(c["ddrops"]) + len(c["adrops"]) >= 4 else ""}'] += 1
        hist['dropped-data'] += len(dpath.dropped)
        hist['dropped-acks'] += len(apath.dropped)
        if sr.trace != m and window_rules_are_the_cause(sr.trace, m):
            # not about delivery (see window_rules_are_the_cause): recorded, not counted
            foreign['count'] += 1
            if len(foreign['samples']) < 3:
                d = first_diff(sr.trace, m)
                foreign['samples'].append({'case': clean(c), 'detail': f'sender line {d[0]}: {explain_diff(d[1], d[2])}'})
        elif sr.trace != m:
            d = first_diff(sr.trace, m)
            disagreements.append({'case': clean(top),
                                  'detail': f'{label}sender line {d[0]}: impl `{d[1][:300]}` model `{d[2][:300]}` {explain_diff(d[1], d[2])}',
                                  'impl': sr.lines[:d[0] // 2 + 4] + ['--'] + sr.trace[max(0, d[0] - 3):d[0] + 2],
                                  'model': (m or [])[max(0, d[0] - 3):d[0] + 2]})
        slines = [f'A {a} B ' + ','.join(f'{s}:{e}' for s, e in b) for pid, a, b in sinklog]
        km = kmodel.get(key)
        if slines != km:
            d = first_diff(slines, km)
            disagreements.append({'case': clean(top), 'detail': f'{label}sink (in loop) arrival {d[0]}: impl `{d[1]}` model `{d[2]}`',
                                  'impl': slines[:60], 'model': (km or [])[:60]})
        # the sink oracle applies inside the loop as well
        for f in sink_oracle({'arrivals': [[pid, sr.sender.mss] for pid, a, b in sinklog]}, [[a] for pid, a, b in sinklog], None):
            f.update(case=clean(top), trace=slines[:80], what=label + f['what'])
            oracle_failures.append(f)
        # ... "for EVERY arriving segment": the sink was handed `dpath.delivered` segments by the data path (counted by the harness path
        # itself) and each of them is answered on the spot, so its `out` has been given exactly as many ACKs - whatever the flow id
        if not (sr.error and sr.error[0] != 'budget') and dpath.delivered != len(sinklog):
            oracle_failures.append({'what': f'{label}the data path handed {dpath.delivered} segments of flow {c.get("flow_id", 0)} to the sink, the sink '
                                            f'returned {len(sinklog)} ACKs: every arriving segment is answered with the contiguous prefix length',
                                    'signature': 'loop-sink-ack-count', 'case': clean(top), 'trace': slines[:80] + ['--'] + sr.lines[:60]})
        for f in loop_oracle(c, sr, sink, ended):
            f.update(case=clean(top), trace=sr.lines[:200] + ['--'] + sr.trace[-6:], what=label + f['what'])
            oracle_failures.append(f)
        if c.get('_timely'):
            hist['loop-lossfree-timely'] += 1
        if c.get('reorder'):
            fs, verdict = reorder_oracle(c, sr, sink, ended, dpath, apath)
            for f in fs:
                f.update(case=clean(top), trace=sr.lines[:400] + ['--'] + sr.trace[-6:], what=label + f['what'])
                oracle_failures.append(f)
            rhist[verdict] += 1
            rhist['cc:' + c['cc']] += 1
            runs = dup_runs(apath.acknos)
            for n in runs:
                rhist[f'runs-of-{min(n, 3)}{"-or-more" if n >= 3 else ""}-duplicate-acks'] += 1
            rhist['transmissions-overtaken'] += sum(1 for k, i in enumerate(dpath.order) if any(j > i for j in dpath.order[:k]))
            rhist['transmissions'] += dpath.n
            if verdict == 'judged' and len(runs) >= 3:
                rhist['judged-with-3-or-more-isolated-duplicate-runs'] += 1
                rnontriv.add(json.dumps(clean(top), sort_keys=True))
        if not label:
            if dpath.dropped or apath.dropped or hist_retx(sr):
                nontrivial.add(json.dumps(clean(top), sort_keys=True))
            if len(samples) < 2 and dpath.dropped and apath.dropped and c['nseg'] <= 6 and not top.get('peers'):
                samples.append({'closed_loop': clean(c), 'sender_events': sr.lines[:40],
                                'final': {'last_ack': sr.sender.last_ack, 'recv_buffer': sink.recv_buffer}})
    # the first loops executed again later in this process (fresh Environment, fresh objects): the sender's events and the
    # segments it emits are functions of the configuration and the path
    again = 0
    if not ctx.replay:
        first = {}
        for key, label, uc, top, t in units:
            first[key] = t
        for i, c in loops[:60]:
            again += 1
            for key, label, uc, t2 in loop_units(i, c, run_loop_group(c)):
                t1 = first[key]
                if t1[0].lines != t2[0].lines or t1[0].tx.log != t2[0].tx.log:
                    d = first_diff(t1[0].lines, t2[0].lines) or (0, t1[0].tx.log[:3], t2[0].tx.log[:3])
                    oracle_failures.append({'what': f'{label}the same closed loop executed a second time in this process gives another sender history: '
                                                    f'event {d[0]}: first `{d[1]}`, again `{d[2]}`', 'signature': 'loop-second-execution-differs',
                                            'case': clean(c), 'trace': t2[0].lines[:200]})
                    break
    from py2lean import translate
    cov = {
        'evaluations': len(cases),
        'distinct_nontrivial': len(nontrivial),
        'rule': 'sink: distinct arrival sequences that are not a plain in-order run of adjacent segments; closed loop: '
                'distinct configurations in which at least one packet was really dropped, a segment retransmitted, or an ACK arrived '
                'below the acknowledged mark (overtaken on the return path)',
        'samples': samples,
        'sink_sequences': len(sinks), 'closed_loops': len(loops), 'closed_loops_executed_a_second_time': again,
        'reordering_paths': {'evaluations': sum(1 for _, c in loops if c.get('reorder')), 'distinct_nontrivial': len(rnontriv),
                             'replayed_through_the_models': True,
                             'what': 'loss-free closed loops (Reno and CUBIC, 28-64 segments) over a serial-link data path on which 3-6 transmissions, >= 5 apart, are '
                                     'delayed by 1.5 / 2.5 serialisation times and so overtaken by one or two later segments; judged by the reorder oracle when its '
                                     'hypothesis holds on the trace; non-trivial = judged and at least three separate runs of duplicate ACKs reached the sender',
                             'histogram': dict(sorted(rhist.items())),
                             'sample': next((clean(c) for _, c in loops if c.get('reorder')), None)},
        'data_flow_ids': {'sink_sequences_at_or_above_10000': sum(1 for _, c in sinks if c.get('flow_id', 0) >= 10000),
                          'closed_loops_at_or_above_10000': sum(1 for _, c in loops if c.get('flow_id', 0) >= 10000),
                          'named_below_10000': sum(1 for c in cases if 0 <= c.get('flow_id', -1) < 10000),
                          'replayed_through_the_models': True,
                          'sample_ids': sorted({c['flow_id'] for c in cases if 'flow_id' in c})[:12]},
        'traces_validated_against_impl': len(cases) - len({json.dumps(d['case'], sort_keys=True) for d in disagreements}),
        'sender_observation_lines_compared': lines_compared,
        'disagreements_not_about_this_property': foreign,
        'operation_histogram': dict(sorted(hist.items())),
        'translated': _PREP.get('translated', []),
        'used_not_owned': dict(_PREP.get('used_not_owned', {}), translated_for_C17=translate.TRANSLATED),
        'generated_files_rewritten': _PREP.get('rewritten', []), 'generated_diff_vs_pinned': _PREP.get('diff_vs_pinned', []),
        'bridge_theorems': BRIDGES,
        'hand_modelled': ['TCPSink.packet_arrived (list.sort and the loop frame; its body is translated)',
                          'PacketSink.put (the statistics of the base class)', 'TCPPacketGenerator.put (dup-ACK dispatch, timer cancellation)',
                          'TCPPacketGenerator.timeout_callback', 'TCPPacketGenerator.resend_packet', 'TCPPacketGenerator.run (loop)'],
    }
    res = {'coverage': cov, 'disagreements': disagreements, 'oracle_failures': oracle_failures}
    run_sndk(ctx, res)                       # sndk leg: appends its coverage, disagreements and oracle failures in place
    return res


def hist_retx(sr):
    return any(r['tx'] for r in sr.records if r['tag'] in 'AF')
