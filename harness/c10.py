"""C10 - a wire delays each packet by its drawn delay, keeps order, loses only by rate (Wire, Cable)."""
import random, collections, json, math
from onl.sim import Environment
from onl.netdev import Wire, Cable
import onl.netdev.wire as wire_mod
from harness.fifo import FifoRun, Recorder, run_many, make_packet, INF
from harness.fshrink import shrink
from vlib.util import bits, run_driver, split_cases, quiet

ASSUMPTIONS = [
    'delays are finite numbers >= 0, loss rates lie in [0, 1] or are None, an `out` is attached',
    'the loss draws and the delays are inputs of the model, recorded from the implementation (`random.uniform` stand-in inside onl.netdev.wire, the harness\'s `delay_dist`); nothing is claimed about their distribution or independence',
    'theorems are over exact rationals; the replay compares IEEE doubles bit for bit. In floats the wire sleeps `delay - (now - arrival)` and so leaves at `now + (delay - (now - arrival))`, which may differ from `arrival + delay` by rounding: the oracle recomputes exactly that expression and checks the literal `max(a + d, previous delivery)` within 4 ulp',
    'the wire process on the real kernel refines the FifoServer LTS: checked by replay (labels from Process.target), not proved',
    'Cable: the two wires are replayed as two independent model instances fed only with their own arrivals and draws',
]
TRUSTED_EXTRA = ['the kernel guarantees (G1-G3) that make `tick` admissible only at quiescence are theorems of model K (C01), assumed for the device LTS',
                 'py2lean/elem.py + elements.py (typed AST-subset translator that splits a server generator at its `yield env.timeout` statements; '
                 'hand-written field schema of Wire objects, declared effects `self.store.put(packet)`, `packet.current_time = self.env.now`, `self.out.put(packet)`; external inputs `random.uniform(0, 1)`, `self.delay_dist()`); '
                 'the bridge theorems C10.wire_put_generated_eq_model, C10.wire_run_generated_eq_model tie its output to the model']
BRIDGES = ['C10.wire_put_generated_eq_model', 'C10.wire_run_generated_eq_model']
HAND_MODELLED = ['Wire.run (the `while True` / `get` frame; the round itself is translated)', 'Wire.__init__', 'Cable.set_endpoints']
_PREP = {}


def prepare(ctx):
    """regenerate lean/OnlVerif/Generated/Wire.lean from the source under $ONL_REPO (a translator failure or a bridge
    theorem that no longer compiles is a broken obligation)"""
    from py2lean import translate, elements
    _PREP['translated'] = elements.TRANSLATED['Wire']
    _PREP['rewritten'] = translate.regenerate_all(only=('Wire',))
    _PREP['diff_vs_pinned'] = translate.diff_vs_pinned('Wire')


class Sink:
    def __init__(self):
        self.taken = []


class WireDraws:
    """stands in for the `random` module inside onl.netdev.wire and provides the `delay_dist` callable.
    Every draw is appended to the `taken` list of every registered FifoRun sink (slot 0: loss draw, slot 1: delay)
    and, for the oracle, to a per-wire list keyed by `env.active_process`."""

    def __init__(self, env, rseed, delays, grid=False):
        self.env = env
        self.grid = grid          # draws from {0, 1/8, .., 7/8}: a draw equal to the loss rate does occur
        self.rng = random.Random(rseed)
        self.delays = delays
        self.n = 0
        self.sinks = []
        self.loss_calls = collections.defaultdict(list)    # process -> [(now, x)]
        self.delay_calls = collections.defaultdict(list)   # process -> [(now, d)]

    def uniform(self, a, b):
        x = self.rng.uniform(a, b) if not self.grid else a + (b - a) * (self.rng.randrange(8) / 8)
        for s in self.sinks:
            s.taken.append(x)
        self.loss_calls[self.env.active_process].append((self.env.now, x))
        return x

    def delay_dist(self):
        d = self.delays[self.n % len(self.delays)]
        self.n += 1
        for s in self.sinks:
            if not s.taken:
                s.taken.append(0.0)       # no loss draw was taken in this burst
            s.taken.append(d)
        self.delay_calls[self.env.active_process].append((self.env.now, d))
        return d


def snap_wire(run):
    return f'rec={run.dev.packets_rec}'


class Forward(Recorder):
    """the far endpoint of a wire: records the delivery, optionally answers into the other direction"""

    def __init__(self, run, reply=None):
        super().__init__(run)
        self.reply = reply

    def put(self, packet):
        super().put(packet)
        if self.reply is not None:
            self.reply(packet)


DELAYS = [0, 0, 1, 2, 3, 5, 10, 0.5, 2.5, 0.1, 7.25]
GAPS = [0, 0, 0, 1, 1, 2, 5, 0.5, 0.1, 10, 3]


def gen_delays(rng):
    mode = rng.choice(['const', 'decr', 'zero', 'random', 'mixed', 'dyadic'])
    if mode == 'const':
        return mode, [rng.choice([1, 2, 5, 0.5, 0.1, 3.3])]
    if mode == 'decr':
        top = rng.choice([10, 6, 20, 7.5])
        step = rng.choice([1, 2, 0.5, 3])
        out, x = [], top
        while x > 0 and len(out) < 12:
            out.append(x); x -= step
        return mode, out + [0]
    if mode == 'zero':
        return mode, [0]
    if mode == 'random':
        return mode, [rng.random() * rng.choice([1, 10, 0.01]) for _ in range(rng.randint(3, 17))]
    if mode == 'dyadic':
        return mode, [rng.choice([0, 0.5, 1, 1.5, 2, 4, 8]) for _ in range(rng.randint(2, 9))]
    return mode, [rng.choice(DELAYS) for _ in range(rng.randint(2, 9))]


def gen_sources(rng, nmax=3):
    out = []
    for _ in range(rng.randint(1, nmax)):
        script = []
        for _ in range(rng.randint(1, 8)):
            gap = rng.choice(GAPS + [round(rng.random() * 6, 3)])
            burst = [(rng.randrange(3), rng.choice([40, 100, 1500])) for _ in range(rng.choice([1, 1, 1, 2, 3, 5]))]
            script.append((gap, burst))
        out.append(script)
    return out


def gen_case(rng, cid):
    kind = 'cable' if rng.random() < 0.35 else 'wire'
    loss = rng.choice([None, None, 0, 0.0, 1, 1.0, 0.5, 0.1, 0.9, round(rng.random(), 3)])
    grid = rng.random() < 0.3
    if grid and loss:
        loss = rng.choice([0.125, 0.25, 0.5, 0.75, 0.875, 1])
    mode, delays = gen_delays(rng)
    c = {'cid': str(cid), 'kind': kind, 'loss': loss, 'rseed': rng.randrange(1 << 30), 'grid_draws': grid, 'delay_mode': mode,
         'delays': delays, 'sources': gen_sources(rng)}
    c['own_ids'] = kind == 'wire' and rng.random() < 0.35
    if kind == 'cable':
        c['sources2'] = gen_sources(rng, 2) if rng.random() < 0.8 else []
        c['echo'] = rng.random() < 0.5
    return c


def header(cid, c):
    return f"CASE {cid} wire {'None' if c['loss'] is None else bits(c['loss'])}"


def feeder(env, put, script, counter):
    for gap, burst in script:
        yield env.timeout(gap)
        for flow, size in burst:
            counter[0] += 1
            put(make_packet(env, counter[0], flow, size))


class Endpoint:
    """a device at one end of a cable (`out` is set by `Cable.set_endpoints`)"""
    out = None

    def put(self, packet):
        pass


def run_impl(c):
    """returns {sub-case id: FifoRun}; every FifoRun carries .raised, .wd (the draw recorder)"""
    env = Environment()
    wd = WireDraws(env, c['rseed'], c['delays'], c.get('grid_draws', False))
    counter = [0]
    old = wire_mod.random
    wire_mod.random = wd
    runs = {}
    raised = None
    try:
        if c['kind'] == 'wire':
            w = Wire(env, wd.delay_dist, c['loss'])
            r = FifoRun(env, w, snap_wire, Sink())
            wd.sinks.append(r.draws)
            runs[c['cid']] = r
            for script in c['sources']:
                # sources may number their packets independently (ids are unique per source, not per wire)
                env.process(feeder(env, w.put, script, [0] if c.get('own_ids') else counter))
        else:
            cable = Cable(env, wd.delay_dist, c['loss'])
            a, b = Endpoint(), Endpoint()
            cable.set_endpoints(a, b)
            r1 = FifoRun(env, cable.wire1, snap_wire, Sink())
            r2 = FifoRun(env, cable.wire2, snap_wire, Sink())
            wd.sinks += [r1.draws, r2.draws]
            runs[c['cid'] + 'a'] = r1
            runs[c['cid'] + 'b'] = r2
            echoed = [0]
            def reply(packet):
                # endpoint b answers every third byte-size class with a packet into the reverse wire, same burst
                if c.get('echo') and echoed[0] < 40:
                    echoed[0] += 1
                    counter[0] += 1
                    b.out.put(make_packet(env, counter[0], 9, 64))
            cable.wire1.out = Forward(r1, reply)
            cable.wire2.out = Forward(r2)
            for script in c['sources']:
                env.process(feeder(env, lambda p: a.out.put(p), script, counter))
            for script in c.get('sources2', []):
                env.process(feeder(env, lambda p: b.out.put(p), script, counter))
        try:
            run_many(env, list(runs.values()))
        except BaseException as x:          # the property says the run never raises
            raised = f'{type(x).__name__}: {x}'
    finally:
        wire_mod.random = old
    for r in runs.values():
        r.raised = raised
        r.wd = wd
    return runs


# ---- direct oracle (independent of the Lean model) -------------------------------------------------

def ulp_close(x, y, n=4):
    return abs(x - y) <= n * math.ulp(max(abs(x), abs(y), 1e-300))


def truthy(x):
    return bool(x)


def oracle_wire(c, run, name):
    """restates C10 over one wire's own trace: arrivals (instant, packet), the loss draws and delays it consumed
    in service order, its deliveries"""
    fails = []
    def fail(what, sig):
        fails.append({'what': f'{name}: {what}', 'signature': sig})
    if run.raised:
        fail(f'the run raised {run.raised}', 'wire-raised')
        return fails
    loss = c['loss']
    proc = run.dev.action
    lossd = list(run.wd.loss_calls.get(proc, []))
    delayd = list(run.wd.delay_calls.get(proc, []))
    acc, dep = run.arrivals, run.departures
    if run.drops:
        fail('a wire refused a packet at put()', 'wire-put-drop')
    if run.dev.packets_rec != len(acc):
        fail(f'packets_rec = {run.dev.packets_rec}, {len(acc)} packets were put', 'wire-counter')
    if not truthy(loss) and lossd:
        fail('a loss draw was taken although no loss rate is configured', 'wire-loss-draw')
    # exactly once, order
    ids = [id(p) for _, p in dep]
    if len(set(ids)) != len(ids):
        fail('a packet was delivered twice', 'wire-duplicate')
    pos = {id(p): k for k, (_, p) in enumerate(acc)}
    seq = [pos.get(i, -1) for i in ids]
    if -1 in seq:
        fail('a packet was delivered that never entered', 'wire-foreign')
    elif any(x >= y for x, y in zip(seq, seq[1:])):
        fail(f'deliveries are not in arrival order: arrival positions {seq[:20]}', 'wire-order')
    delivered = {id(p): t for t, p in dep}
    # the recurrence
    li = di = 0
    prev = None            # instant of the previous *delivery* (lost packets do not count)
    n_lost = 0
    for k, (a, p) in enumerate(acc):
        lost_want = False
        if truthy(loss):
            if li >= len(lossd):
                fail(f'packet {p.packet_id}: no loss draw was taken for it', 'wire-loss-draw')
                break
            x = lossd[li][1]; li += 1
            lost_want = x < loss
            if lost_want != (id(p) not in delivered):
                fail(f'packet {p.packet_id}: loss draw {x!r} vs loss rate {loss!r} but the packet was '
                     f'{"not " if id(p) not in delivered else ""}delivered', 'wire-loss-rule')
                break
        if lost_want:
            n_lost += 1
            continue
        if id(p) not in delivered:
            fail(f'packet {p.packet_id} entered at {a} and was never delivered although it was not lost by the loss rule',
                 'wire-not-delivered')
            break
        if di >= len(delayd):
            fail(f'packet {p.packet_id}: no delay was drawn for it', 'wire-delay-draw')
            break
        d = delayd[di][1]; di += 1
        t = delivered[id(p)]
        h = a if prev is None or a > prev else prev          # the instant the server takes it: max(a, previous delivery)
        q = h - a
        want = h + (d - q) if q < d else h                    # same expression order as the implementation
        lit = max(a + d, prev if prev is not None else a)     # the property's formula
        if t != want:
            fail(f'packet {p.packet_id} entered at {a!r}, delay {d!r}, previous delivery {prev!r}: delivered at {t!r}, '
                 f'expected {want!r} (= max(a + d, previous delivery) = {lit!r})', 'wire-delivery-time')
            break
        if not ulp_close(t, lit):
            fail(f'packet {p.packet_id}: delivered at {t!r}, max(a + d, previous delivery) = {lit!r}', 'wire-delivery-literal')
            break
        prev = t
    else:
        if di != len(delayd):
            fail(f'{len(delayd)} delays drawn for {di} delivered packets', 'wire-delay-draw')
        if li != len(lossd):
            fail(f'{len(lossd)} loss draws for {li} packets', 'wire-loss-draw')
        if len(dep) + n_lost != len(acc):
            fail(f'{len(acc)} entered, {len(dep)} delivered, {n_lost} lost by rule', 'wire-conservation')
    return fails


def oracle(c, runs):
    fails = []
    for name, r in runs.items():
        fails += oracle_wire(c, r, 'wire ' + name)
    if c['kind'] == 'cable':
        r1, r2 = list(runs.values())
        if r1.dev is r2.dev or r1.dev.store is r2.dev.store:
            fails.append({'what': 'the two wires of the cable share state', 'signature': 'cable-shared'})
    return fails


def run(ctx):
    rng = random.Random(f'C10-{ctx.seed}')
    if ctx.replay:
        j = json.load(open(ctx.replay))
        cases = [j['case']] if j.get('case') else [d['case'] for d in j.get('broken_correspondence', [])]
    else:
        cases = [gen_case(rng, i) for i in range(600 if ctx.quick else 12000)]
    text, allruns = [], {}
    for c in cases:
        runs = run_impl(c)
        allruns[c['cid']] = runs
        for sid, r in runs.items():
            text.append(header(sid, c)); text += r.acts; text.append('END')
    model = split_cases(run_driver('fifo', '\n'.join(text) + '\n'))
    dis, orc = [], []
    hist = collections.Counter()
    distinct = set(); nontriv = 0; samples = []; shrunk = 0
    for c in cases:
        runs = allruns[c['cid']]
        nt = False
        for sid, r in runs.items():
            a, b = r.obs, model.get(sid)
            for l in r.acts:
                hist[l.split(' ')[0]] += 1
            hist['lost'] += len(r.lost)
            hist['delivered'] += len(r.departures)
            # non-trivial: a packet entered while an earlier one was still inside and left at its predecessor's instant, or a loss
            dts = [t for t, _ in r.departures]
            if r.lost or any(x == y for x, y in zip(dts, dts[1:])):
                nt = True
            if a != b:
                i = next((i for i in range(max(len(a), len(b or []))) if i >= len(a) or not b or i >= len(b) or a[i] != b[i]), 0)
                dis.append({'case': c, 'detail': f'wire {sid} line {i}: impl `{a[i] if i < len(a) else None}` model `{b[i] if b and i < len(b) else None}`',
                            'impl': a[:300], 'model': (b or [])[:300]})
        hist['kind:' + c['kind']] += 1
        hist['delay:' + c['delay_mode']] += 1
        hist['draw_equals_loss_rate'] += sum(1 for r in runs.values() for calls in r.wd.loss_calls.values() for _, x in calls if x == c['loss']) // len(runs)
        hist['loss:' + ('None' if c['loss'] is None else 'zero' if not c['loss'] else 'one' if c['loss'] >= 1 else 'p')] += 1
        key = json.dumps({k: v for k, v in c.items() if k != 'cid'}, sort_keys=True)
        if nt and key not in distinct:
            nontriv += 1
        distinct.add(key)
        for f in oracle(c, runs):
            f['case'] = c
            f['trace'] = {sid: r.obs[:200] for sid, r in runs.items()}
            if shrunk < 3 and not ctx.replay:       # minimise the first failing inputs
                shrunk += 1
                sig = f['signature']
                small = shrink(c, ['sources', 'sources2'], lambda cc: any(g['signature'] == sig for g in oracle(cc, run_impl(cc))))
                runs2 = run_impl(small)
                f2 = next((g for g in oracle(small, runs2) if g['signature'] == sig), None)
                if f2:
                    f = dict(f2, case=small, trace={sid: r.obs[:200] for sid, r in runs2.items()}, shrunk_from=c['cid'])
            orc.append(f)
        if len(samples) < 2 and nt:
            samples.append({'case': c, 'actions': {sid: r.acts[:30] for sid, r in runs.items()}})
    cov = {'evaluations': len(cases), 'distinct_nontrivial': nontriv,
           'rule': 'seeded random wire/cable configurations (loss None/0/1/p, delay sequences constant/decreasing/zero/random/dyadic) x arrival workloads '
                   '(1-3 sources per direction, bursts, arrivals while earlier packets propagate, echo traffic on cables); non-trivial = distinct case '
                   'with a loss or with a packet that caught up with its predecessor (delivered at the same instant)',
           'samples': samples, 'traces_validated_against_impl': sum(len(r) for r in allruns.values()) - len(dis),
           'action_lines_replayed': sum(len(r.acts) for rs in allruns.values() for r in rs.values()),
           'operation_histogram': dict(sorted(hist.items()))}
    cov.update({'translated': _PREP.get('translated', []), 'generated_files_rewritten': _PREP.get('rewritten', []),
                'generated_diff_vs_pinned': _PREP.get('diff_vs_pinned', []), 'bridge_theorems': BRIDGES, 'hand_modelled': HAND_MODELLED})
    return {'coverage': cov, 'disagreements': dis, 'oracle_failures': orc}
