"""C10 - a wire delays each packet by its drawn delay, keeps order, loses only by rate (Wire, Cable)."""
from vlib.util import guarded_leg
import random, collections, json, math
from onl.sim import Environment
from onl.netdev import Wire, Cable
import onl.netdev.wire as wire_mod
from harness.fifo import FifoRun, Recorder, run_many, make_packet, INF
from harness.fshrink import shrink
from vlib.util import bits, run_driver, split_cases, quiet

ASSUMPTIONS = [
    'delays are finite numbers >= 0, loss rates lie in [0, 1] or are None, an `out` is attached',
    'the loss draws and the delays are inputs of the model, recorded from the implementation (`random.uniform` stand-in inside onl.netdev.wire, the harness\'s `delay_dist`); nothing is claimed about their distribution or independence',
    'theorems are over exact rationals; the replay compares IEEE doubles bit for bit. In floats the wire sleeps `delay - (now - arrival)` and so leaves at `now + (delay - (now - arrival))`, which may differ from `arrival + delay` by rounding: the oracle recomputes exactly that expression and checks the literal `max(a + d, previous delivery)` within 4 ulp',
    'the wire process on the real kernel refines the FifoServer LTS: checked by replay (labels from Process.target); proved for Wire.put/run + one source '
    'as a process on the kernel MODEL K (Props/C10K.lean); not for several sources and Cable',
    'Cable: the two wires are replayed as two independent model instances fed only with their own arrivals and draws',
]
EXTRA_MODULES = ('OnlVerif.Props.C10K',)
TRUSTED_EXTRA = ['the kernel guarantees (G1-G3) that make `tick` admissible only at quiescence are theorems of model K (C01), assumed for the device LTS',
                 'py2lean/elem.py + elements.py (typed AST-subset translator that splits a server generator at its `yield env.timeout` statements; '
                 'hand-written field schema of Wire objects, declared effects `self.store.put(packet)`, `packet.current_time = self.env.now`, `self.out.put(packet)`; external inputs `random.uniform(0, 1)`, `self.delay_dist()`); '
                 'the bridge theorems C10.wire_put_generated_eq_model, C10.wire_run_generated_eq_model tie its output to the model']
BRIDGES = ['C10.wire_put_generated_eq_model', 'C10.wire_run_generated_eq_model']
HAND_MODELLED = ['Wire.run (the `while True` / `get` frame; the round itself is translated)', 'Wire.__init__', 'Cable.set_endpoints']
_PREP = {}


def prepare(ctx):
    """regenerate lean/OnlVerif/Generated/Wire.lean from the source under $ONL_REPO (a translator failure or a bridge
    theorem that no longer compiles is a broken obligation)"""
    from py2lean import translate, elements
    _PREP['translated'] = elements.TRANSLATED['Wire']
    _PREP['rewritten'] = translate.regenerate_all(only=('Wire',))
    _PREP['diff_vs_pinned'] = translate.diff_vs_pinned('Wire')


class Sink:
    def __init__(self):
        self.taken = []


class WireDraws:
    """stands in for the `random` module inside onl.netdev.wire and provides the `delay_dist` callable.
    Every draw is appended to the `taken` list of every registered FifoRun sink (slot 0: loss draw, slot 1: delay)
    and, for the oracle, to a per-wire list keyed by `env.active_process`."""

    # the rest of the `random` module (classes, other functions) is what it is: only `uniform` is recorded
    Random, SystemRandom = random.Random, random.SystemRandom

    def __getattr__(self, name):
        if name.startswith('__'):
            raise AttributeError(name)
        return getattr(random, name)

    def __init__(self, env, rseed, delays, grid=False):
        self.env = env
        self.grid = grid          # draws from {0, 1/8, .., 7/8}: a draw equal to the loss rate does occur
        self.rng = random.Random(rseed)
        self.delays = delays
        self.n = 0
        self.sinks = []
        self.loss_calls = collections.defaultdict(list)    # process -> [(now, x)]
        self.delay_calls = collections.defaultdict(list)   # process -> [(now, d)]

    def uniform(self, a, b):
        x = self.rng.uniform(a, b) if not self.grid else a + (b - a) * (self.rng.randrange(8) / 8)
        for s in self.sinks:
            s.taken.append(x)
        self.loss_calls[self.env.active_process].append((self.env.now, x))
        return x

    def delay_dist(self):
        d = self.delays[self.n % len(self.delays)]
        self.n += 1
        for s in self.sinks:
            if not s.taken:
                s.taken.append(0.0)       # no loss draw was taken in this burst
            s.taken.append(d)
        self.delay_calls[self.env.active_process].append((self.env.now, d))
        return d


def snap_wire(run):
    return f'rec={run.dev.packets_rec}'


class Forward(Recorder):
    """the far endpoint of a wire: records the delivery, optionally answers into the other direction"""

    def __init__(self, run, reply=None):
        super().__init__(run)
        self.reply = reply

    def put(self, packet):
        super().put(packet)
        if self.reply is not None:
            self.reply(packet)


DELAYS = [0, 0, 1, 2, 3, 5, 10, 0.5, 2.5, 0.1, 7.25]
GAPS = [0, 0, 0, 1, 1, 2, 5, 0.5, 0.1, 10, 3]


def gen_delays(rng):
    mode = rng.choice(['const', 'decr', 'zero', 'random', 'mixed', 'dyadic', 'tenths'])
    if mode == 'const':
        return mode, [rng.choice([1, 2, 5, 0.5, 0.1, 3.3])]
    if mode == 'decr':
        top = rng.choice([10, 6, 20, 7.5])
        step = rng.choice([1, 2, 0.5, 3])
        out, x = [], top
        while x > 0 and len(out) < 12:
            out.append(x); x -= step
        return mode, out + [0]
    if mode == 'zero':
        return mode, [0]
    if mode == 'random':
        return mode, [rng.random() * rng.choice([1, 10, 0.01]) for _ in range(rng.randint(3, 17))]
    if mode == 'dyadic':
        return mode, [rng.choice([0, 0.5, 1, 1.5, 2, 4, 8]) for _ in range(rng.randint(2, 9))]
    if mode == 'tenths':
        # non-dyadic instants with delays that vary a lot: later packets keep catching up with their predecessor
        return mode, [rng.randrange(0, 13) / 10 for _ in range(rng.randint(3, 12))]
    return mode, [rng.choice(DELAYS) for _ in range(rng.randint(2, 9))]


def gen_sources(rng, nmax=3, tenths=False):
    out = []
    for _ in range(rng.randint(1, nmax)):
        script = []
        for _ in range(rng.randint(1, 8) if not tenths else rng.randint(4, 12)):
            gap = rng.choice(GAPS + [round(rng.random() * 6, 3)]) if not tenths else rng.choice([0, 0.1, 0.1, 0.2, 0.3, 0.7])
            burst = [(rng.randrange(3), rng.choice([40, 100, 1500])) for _ in range(rng.choice([1, 1, 1, 2, 3, 5]))]
            script.append((gap, burst))
        out.append(script)
    return out


def gen_case(rng, cid):
    kind = 'cable' if rng.random() < 0.35 else 'wire'
    loss = rng.choice([None, None, 0, 0.0, 1, 1.0, 0.5, 0.1, 0.9, round(rng.random(), 3)])
    grid = rng.random() < 0.3
    if grid and loss:
        loss = rng.choice([0.125, 0.25, 0.5, 0.75, 0.875, 1])
    mode, delays = gen_delays(rng)
    c = {'cid': str(cid), 'kind': kind, 'loss': loss, 'rseed': rng.randrange(1 << 30), 'grid_draws': grid, 'delay_mode': mode,
         'delays': delays, 'sources': gen_sources(rng, tenths=mode == 'tenths')}
    c['own_ids'] = kind == 'wire' and rng.random() < 0.35
    if kind == 'cable':
        c['sources2'] = gen_sources(rng, 2) if rng.random() < 0.8 else []
        c['echo'] = rng.random() < 0.5
    return c


def header(cid, c):
    return f"CASE {cid} wire {'None' if c['loss'] is None else bits(c['loss'])}"


def feeder(env, put, script, counter):
    for gap, burst in script:
        yield env.timeout(gap)
        for flow, size in burst:
            counter[0] += 1
            put(make_packet(env, counter[0], flow, size))


class Endpoint:
    """a device at one end of a cable (`out` is set by `Cable.set_endpoints`)"""
    out = None

    def put(self, packet):
        pass


def untap_if_blind(r):
    """public attributes the stepping harness needs and the wire does not have; the put tap (it snapshots `store`) is taken
    off again in that case"""
    missing = [a for a in ('action', 'store') if not hasattr(r.dev, a)]
    if missing:
        r.dev.put = r._orig_put
    return missing


def run_impl(c):
    """returns {sub-case id: FifoRun}; every FifoRun carries .raised, .wd (the draw recorder)"""
    env = Environment()
    wd = WireDraws(env, c['rseed'], c['delays'], c.get('grid_draws', False))
    counter = [0]
    old = wire_mod.random
    wire_mod.random = wd
    runs = {}
    raised = None
    blind = []
    try:
        if c['kind'] == 'wire':
            w = Wire(env, wd.delay_dist, c['loss'])
            r = FifoRun(env, w, snap_wire, Sink())
            wd.sinks.append(r.draws)
            runs[c['cid']] = r
            blind = untap_if_blind(r)
            for script in c['sources']:
                # sources may number their packets independently (ids are unique per source, not per wire)
                env.process(feeder(env, w.put, script, [0] if c.get('own_ids') else counter))
        else:
            cable = Cable(env, wd.delay_dist, c['loss'])
            a, b = Endpoint(), Endpoint()
            cable.set_endpoints(a, b)
            r1 = FifoRun(env, cable.wire1, snap_wire, Sink())
            r2 = FifoRun(env, cable.wire2, snap_wire, Sink())
            wd.sinks += [r1.draws, r2.draws]
            blind = untap_if_blind(r1) + untap_if_blind(r2)
            runs[c['cid'] + 'a'] = r1
            runs[c['cid'] + 'b'] = r2
            echoed = [0]
            def reply(packet):
                # endpoint b answers every third byte-size class with a packet into the reverse wire, same burst
                if c.get('echo') and echoed[0] < 40:
                    echoed[0] += 1
                    counter[0] += 1
                    b.out.put(make_packet(env, counter[0], 9, 64))
            cable.wire1.out = Forward(r1, reply)
            cable.wire2.out = Forward(r2)
            for script in c['sources']:
                env.process(feeder(env, lambda p: a.out.put(p), script, counter))
            for script in c.get('sources2', []):
                env.process(feeder(env, lambda p: b.out.put(p), script, counter))
        # the stepping harness reads the server's progress off `action` (the wire's process) and `store`; a wire without
        # them cannot be replayed against the LTS (reported as a broken correspondence) - the black-box cases below, which
        # use nothing but `put`, `out` and `env.run()`, still judge it
        try:
            if blind:
                env.run()
            else:
                run_many(env, list(runs.values()))
        except BaseException as x:          # the property says the run never raises
            raised = f'{type(x).__name__}: {x}'
    finally:
        wire_mod.random = old
    for r in runs.values():
        r.raised = raised
        r.wd = wd
        r.blind = blind
    return runs


# ---- direct oracle (independent of the Lean model) -------------------------------------------------

def ulp_close(x, y, n=4):
    return abs(x - y) <= n * math.ulp(max(abs(x), abs(y), 1e-300))


def truthy(x):
    return bool(x)


def oracle_wire(c, run, name):
    """restates C10 over one wire's own trace: arrivals (instant, packet), the loss draws and delays it consumed
    in service order, its deliveries"""
    fails = []
    def fail(what, sig):
        fails.append({'what': f'{name}: {what}', 'signature': sig})
    if run.raised:
        fail(f'the run raised {run.raised}', 'wire-raised')
        return fails
    if run.blind:
        return fails              # draws cannot be attributed to this wire: see the black-box oracle
    loss = c['loss']
    proc = run.dev.action
    lossd = list(run.wd.loss_calls.get(proc, []))
    delayd = list(run.wd.delay_calls.get(proc, []))
    acc, dep = run.arrivals, run.departures
    if run.drops:
        fail('a wire refused a packet at put()', 'wire-put-drop')
    if run.dev.packets_rec != len(acc):
        fail(f'packets_rec = {run.dev.packets_rec}, {len(acc)} packets were put', 'wire-counter')
    if not truthy(loss) and lossd:
        fail('a loss draw was taken although no loss rate is configured', 'wire-loss-draw')
    # exactly once, order
    ids = [id(p) for _, p in dep]
    if len(set(ids)) != len(ids):
        fail('a packet was delivered twice', 'wire-duplicate')
    pos = {id(p): k for k, (_, p) in enumerate(acc)}
    seq = [pos.get(i, -1) for i in ids]
    if -1 in seq:
        fail('a packet was delivered that never entered', 'wire-foreign')
    elif any(x >= y for x, y in zip(seq, seq[1:])):
        fail(f'deliveries are not in arrival order: arrival positions {seq[:20]}', 'wire-order')
    delivered = {id(p): t for t, p in dep}
    # the recurrence
    li = di = 0
    prev = None            # instant of the previous *delivery* (lost packets do not count)
    n_lost = 0
    for k, (a, p) in enumerate(acc):
        lost_want = False
        if truthy(loss):
            if li >= len(lossd):
                fail(f'packet {p.packet_id}: no loss draw was taken for it', 'wire-loss-draw')
                break
            x = lossd[li][1]; li += 1
            lost_want = x < loss
            if lost_want != (id(p) not in delivered):
                fail(f'packet {p.packet_id}: loss draw {x!r} vs loss rate {loss!r} but the packet was '
                     f'{"not " if id(p) not in delivered else ""}delivered', 'wire-loss-rule')
                break
        if lost_want:
            n_lost += 1
            continue
        if id(p) not in delivered:
            fail(f'packet {p.packet_id} entered at {a} and was never delivered although it was not lost by the loss rule',
                 'wire-not-delivered')
            break
        if di >= len(delayd):
            fail(f'packet {p.packet_id}: no delay was drawn for it', 'wire-delay-draw')
            break
        d = delayd[di][1]; di += 1
        t = delivered[id(p)]
        h = a if prev is None or a > prev else prev          # the instant the server takes it: max(a, previous delivery)
        q = h - a
        want = h + (d - q) if q < d else h                    # same expression order as the implementation
        lit = max(a + d, prev if prev is not None else a)     # the property's formula
        if t != want:
            fail(f'packet {p.packet_id} entered at {a!r}, delay {d!r}, previous delivery {prev!r}: delivered at {t!r}, '
                 f'expected {want!r} (= max(a + d, previous delivery) = {lit!r})', 'wire-delivery-time')
            break
        if not ulp_close(t, lit):
            fail(f'packet {p.packet_id}: delivered at {t!r}, max(a + d, previous delivery) = {lit!r}', 'wire-delivery-literal')
            break
        prev = t
    else:
        if di != len(delayd):
            fail(f'{len(delayd)} delays drawn for {di} delivered packets', 'wire-delay-draw')
        if li != len(lossd):
            fail(f'{len(lossd)} loss draws for {li} packets', 'wire-loss-draw')
        if len(dep) + n_lost != len(acc):
            fail(f'{len(acc)} entered, {len(dep)} delivered, {n_lost} lost by rule', 'wire-conservation')
    return fails


def oracle(c, runs):
    fails = []
    for name, r in runs.items():
        fails += oracle_wire(c, r, 'wire ' + name)
    if c['kind'] == 'cable':
        r1, r2 = list(runs.values())
        if r1.dev is r2.dev or (hasattr(r1.dev, 'store') and r1.dev.store is getattr(r2.dev, 'store', None)):
            fails.append({'what': 'the two wires of the cable share state', 'signature': 'cable-shared'})
    return fails


# ---- black-box cases (oracle only, not replayed by the model) ----------------------------------------
# One Environment holds one or two wires / cables built with the same arguments and fed the SAME traffic; nothing but the
# constructor, `put`, `out` and `env.run()` is used, so these cases judge any implementation of the interface, also one
# whose internals the stepping harness cannot see.  The module-level `random` inside onl.netdev.wire is replaced by a
# seeded `random.Random` instance (every method of the module is there) that records the `uniform` draws.

ASSUMPTIONS.append(
    'black-box cases: the k-th delay a bare wire draws belongs to its k-th packet that is not discarded (the oracle stands down when the counts differ); '
    'a cable gets a constant delay because its two directions share one `delay_dist`. "Independently with probability p" is judged only through events '
    'of probability <= 2^-24 under independence ((p^2+(1-p)^2)^n for two equal loss patterns over n packets - two devices with the same traffic, or one '
    'device under two seeds of the `random` module -, (1-p)^n / p^n for a wire that keeps / discards everything); nothing else is claimed about the distribution')


class BBRandom(random.Random):
    Random, SystemRandom = random.Random, random.SystemRandom

    def __init__(self, seed):
        super().__init__(seed)
        self.calls = []

    def uniform(self, a, b):
        x = a + (b - a) * super().random()
        self.calls.append(x)
        return x

    def __getattr__(self, name):
        if name.startswith('__'):
            raise AttributeError(name)
        return getattr(random, name)


class BBWire:
    """what can be seen of one wire from outside"""

    def __init__(self, name, delays):
        self.name = name
        self.arrivals, self.deliveries = [], []      # (instant, packet)
        self.delays = delays                         # [(instant, d)] drawn by this wire alone, or None (shared delay_dist)

    def pattern(self):
        got = {id(p) for _, p in self.deliveries}
        return tuple(id(p) in got for _, p in self.arrivals)


class BBEnd:
    out = None

    def __init__(self, env, wire):
        self.env, self.wire = env, wire

    def put(self, packet):
        self.wire.deliveries.append((self.env.now, packet))


def bb_case(rng, cid):
    lossy = rng.random() < 0.4
    topo = rng.choice(['cables', 'cables', 'wires']) if lossy else rng.choice(['wires', 'wires', 'wires', 'cables'])
    c = {'cid': f'b{cid}', 'kind': 'bb', 'topo': topo, 'n': 2 if lossy else rng.choice([1, 1, 2]),
         'rseed': rng.randrange(1 << 30), 'rseed2': rng.randrange(1 << 30)}
    shape = rng.choice(['tenths', 'tenths', 'floats', 'mixed'])
    def gap():
        if shape == 'tenths':
            return rng.choice([0, 0.1, 0.1, 0.2, 0.3, 0.7])
        if shape == 'floats':
            return rng.choice([0, rng.random() * 0.5, rng.random() * 2])
        return rng.choice(GAPS + [0.1, 0.3])
    def delay():
        if shape == 'tenths':
            return rng.randrange(0, 13) / 10
        if shape == 'floats':
            return rng.random() * rng.choice([0.3, 2, 5])
        return rng.choice(DELAYS + [0.7, 0.3])
    if lossy:
        # enough packets per direction that two independent loss patterns cannot coincide by chance (see `coincidence`)
        c['loss'] = rng.choice([0.5, 0.5, 0.5, 0.3, 0.6])
        npk = rng.randint(44, 64)
    else:
        c['loss'] = rng.choice([None, None, None, 0, 0.0, 0.2, 0.9, 1])
        npk = rng.randint(4, 30)
    script, left = [], npk
    while left > 0:
        b = min(left, rng.choice([1, 1, 1, 2, 3]))
        # direction 0: dev1 -> dev2 (the only one of a bare wire), 1: the reverse wire of a cable
        script.append((gap(), [(rng.randrange(2) if topo == 'cables' and rng.random() < 0.6 else 0, rng.choice([40, 100, 1500])) for _ in range(b)]))
        left -= b
    if lossy and topo == 'cables':
        script = [(g, [(d, sz) for _, sz in burst for d in (0, 1)]) for g, burst in script]     # every packet both ways
    c['sources'] = [script]
    # a cable hands one `delay_dist` to both directions: its draws cannot be attributed from outside, so it gets a constant
    c['delays'] = [[delay()] if topo == 'cables' else [delay() for _ in range(rng.randint(1, 12))] for _ in range(c['n'])]
    if lossy and rng.random() < 0.5:
        c['delays'] = [c['delays'][0]] * c['n']          # identical devices: same arguments, same traffic, same timing
    return c


def run_bb(c, rseed):
    """-> (wires: [BBWire], raised, number of `random.uniform` draws)"""
    env = Environment()
    rnd = BBRandom(rseed)
    old = wire_mod.random
    wire_mod.random = rnd
    wires, entries = [], []          # entries[k] = {direction: (put, BBWire)} of device k
    raised = None
    try:
        for k in range(c['n']):
            seq, drawn, n = c['delays'][k], [], [0]
            def dist(seq=seq, drawn=drawn, n=n):
                d = seq[n[0] % len(seq)]
                n[0] += 1
                drawn.append((env.now, d))
                return d
            if c['topo'] == 'wires':
                w = BBWire(f'wire {k}', drawn)
                dev = Wire(env, dist, c['loss'])
                dev.out = BBEnd(env, w)
                wires.append(w)
                entries.append({0: (dev.put, w)})
            else:
                fwd, rev = BBWire(f'cable {k} forward', None), BBWire(f'cable {k} reverse', None)
                fwd.const = rev.const = seq[0]
                cable = Cable(env, dist, c['loss'])
                a, b = BBEnd(env, rev), BBEnd(env, fwd)        # a receives what the reverse wire delivers
                cable.set_endpoints(a, b)
                wires += [fwd, rev]
                entries.append({0: (a.out.put, fwd), 1: (b.out.put, rev)})
        def feed(script):
            pid = 0
            for gap, burst in script:
                yield env.timeout(gap)
                for direction, size in burst:
                    pid += 1
                    for e in entries:                            # the same traffic on every device
                        put, w = e.get(direction, e[0])
                        pkt = make_packet(env, pid, direction, size)
                        w.arrivals.append((env.now, pkt))
                        put(pkt)
        for script in c['sources']:
            env.process(feed(script))
        with quiet():
            env.run()
    except BaseException as x:
        raised = f'{type(x).__name__}: {x}'
    finally:
        wire_mod.random = old
    return wires, raised, len(rnd.calls), rnd.calls


def coincidence(p, n):
    """probability that two independent loss patterns over n packets, each packet lost with probability p, are equal"""
    return (p * p + (1 - p) * (1 - p)) ** n


def oracle_bb(c):
    fails = []
    def fail(what, sig):
        fails.append({'what': what, 'signature': sig})
    wires, raised, ndraws, draws = run_bb(c, c['rseed'])
    if raised:
        fail(f'the run raised {raised}', 'wire-raised')
        return fails, wires
    loss = c['loss']
    for w in wires:
        acc, dep = w.arrivals, w.deliveries
        delivered = {id(p): t for t, p in dep}
        # exactly once; "never reordered": the deliveries are a subsequence of the arrivals, in arrival order
        pos = {id(p): k for k, (_, p) in enumerate(acc)}
        seq = [pos.get(id(p), -1) for _, p in dep]
        if len(delivered) != len(dep):
            fail(f'{w.name}: a packet was delivered twice', 'wire-duplicate')
            continue
        if -1 in seq:
            fail(f'{w.name}: a packet was delivered that never entered', 'wire-foreign')
            continue
        bad = next((k for k in range(1, len(seq)) if seq[k - 1] > seq[k]), None)
        if bad is not None:
            (t1, p1), (t2, p2) = dep[bad - 1], dep[bad]
            fail(f'{w.name}: reordered - packet {p1.packet_id} entered at {acc[seq[bad - 1]][0]!r} after packet {p2.packet_id} (entered at '
                 f'{acc[seq[bad]][0]!r}) and was delivered before it (at {t1!r}, the earlier packet at {t2!r})', 'wire-order')
            continue
        if not loss and len(dep) != len(acc):
            fail(f'{w.name}: no loss rate, {len(acc)} packets entered, {len(dep)} were delivered', 'wire-not-delivered')
            continue
        # "delivered at max(a + d, delivery time of the previous packet)": the k-th packet that was not discarded has the k-th
        # delay the wire drew.  `max` does no arithmetic: when a + d lies clearly before the previous delivery the packet is
        # due at exactly that instant, bit for bit; otherwise a + d may be off by the rounding of the wire's own sum (4 ulp)
        surv = [(a, p) for a, p in acc if id(p) in delivered]
        if w.delays is not None:
            ds = [d for _, d in w.delays]
            if len(ds) != len(surv):
                continue                  # delays drawn for discarded packets too: nothing to attribute them by
        else:
            ds = [w.const] * len(surv)
        prev = None
        for (a, p), d in zip(surv, ds):
            t = delivered[id(p)]
            lit = a + d
            if prev is not None and lit < prev and not ulp_close(lit, prev):
                if t != prev:
                    fail(f'{w.name}: packet {p.packet_id} entered at {a!r} with delay {d!r}: a + d = {lit!r} lies before the previous delivery '
                         f'{prev!r}, so it is due at exactly that instant; it was delivered at {t!r}', 'wire-clamp-exact')
                    break
            elif not ulp_close(t, lit if prev is None or lit > prev else prev):
                fail(f'{w.name}: packet {p.packet_id} entered at {a!r} with delay {d!r}, previous delivery {prev!r}: delivered at {t!r}, '
                     f'max(a + d, previous delivery) = {max(lit, prev) if prev is not None else lit!r}', 'wire-delivery-literal')
                break
            prev = t
    if fails:
        return fails, wires
    # "with loss rate p each packet is independently discarded with probability p"
    if loss and 0 < loss < 1:
        busy = [w for w in wires if w.arrivals]
        # one wire alone consulted the module-level `random` once per packet, in order: discarded iff draw < p
        if len(busy) == 1 and ndraws == len(busy[0].arrivals):
            w = busy[0]
            for (a, p), x, kept in zip(w.arrivals, draws, w.pattern()):
                if (x < loss) == kept:
                    fail(f'{w.name}: packet {p.packet_id}: loss draw {x!r} vs loss rate {loss!r} but the packet was {"" if kept else "not "}delivered',
                         'wire-loss-rule')
                    break
        # every wire built with the loss rate loses by it: n packets all kept has probability (1-p)^n, all discarded p^n
        for w in busy:
            n, kept = len(w.arrivals), len(w.deliveries)
            if kept == n and (1 - loss) ** n <= 2.0 ** -24:
                fail(f'{w.name} (loss rate {loss}) delivered every one of {n} packets (chance {(1 - loss) ** n:.1e})', 'wire-loss-never')
            elif kept == 0 and loss ** n <= 2.0 ** -24:
                fail(f'{w.name} (loss rate {loss}) discarded every one of {n} packets (chance {loss ** n:.1e})', 'wire-loss-always')
        if fails:
            return fails, wires
        # two wires / two cables carrying the same traffic do not lose the same packets ...
        pats = [(w, w.pattern()) for w in busy]
        for i in range(len(pats)):
            for j in range(i + 1, len(pats)):
                (w1, p1), (w2, p2) = pats[i], pats[j]
                n = min(len(p1), len(p2))
                if coincidence(loss, n) <= 2.0 ** -24 and p1[:n] == p2[:n]:
                    fail(f'{w1.name} and {w2.name} (loss rate {loss}) discarded exactly the same {p1[:n].count(False)} of their first {n} packets '
                         f'(positions {[k for k in range(n) if not p1[k]][:12]}...): not independent (chance {coincidence(loss, n):.1e})', 'wire-loss-lockstep')
        # ... and the pattern is a matter of the random draws ("with any random seed"): another seed, another pattern
        if not fails and any(coincidence(loss, len(w.arrivals)) <= 2.0 ** -24 for w in busy):
            wires2, raised2, _, _ = run_bb(c, c['rseed2'])
            for w1, w2 in zip(wires, wires2):
                n = len(w1.arrivals)
                if not raised2 and len(w2.arrivals) == n and coincidence(loss, n) <= 2.0 ** -24 and w1.pattern() == w2.pattern():
                    fail(f'{w1.name} (loss rate {loss}) discarded the same {w1.pattern().count(False)} of {n} packets (positions '
                         f'{[k for k in range(n) if not w1.pattern()[k]][:12]}...) under two different seeds of the `random` module '
                         f'({ndraws} draws were taken from it): the losses do not follow its draws', 'wire-loss-ignores-seed')
                    break
    return fails, wires


# ---- reconfiguration while running (oracle only, not replayed by the model) ---------------------------
# The public configuration attributes of a running wire - `loss_rate`, `delay_dist`; for a Cable those of its `wire1` / `wire2` -
# are reassigned between packets by another process of the simulation (an operator that wakes at scripted instants).  The Lean
# models take one fixed configuration, so these cases are judged by a direct oracle alone.  READING: every clause is judged
# against the value the attribute has at the instant the clause refers to - the loss clause against the `loss_rate` in force when
# the packet's discard decision is made (the wire decides when it takes the packet from its store: at max(entry, the instant its
# predecessor was delivered or discarded)), the delay clause against the `delay_dist` installed at that same instant (the delay is
# drawn then).  Where that leaves a case open the oracle stands down: a packet already in flight when its wire's `delay_dist` is
# re-pointed is not judged on its delivery instant; a wire on which a reconfiguration falls into the very instant of an arrival,
# a take or a delivery is not judged at all (the generator keeps the operator's instants off the traffic's grid).

ASSUMPTIONS.append(
    'reconfigured cases (oracle only): `loss_rate` / `delay_dist` of a running wire (of either wire of a cable) are reassigned by an operator process at '
    'instants off the traffic grid; each clause is judged with the value in force at the instant the wire takes the packet from its store (where it decides '
    'about the loss and draws the delay). The harness supplies the `random.uniform` values per wire from a seeded sequence of its own (the k-th decision a '
    'wire makes under a truthy loss rate consumes the k-th value); when a wire stops drawing altogether although its loss rate is truthy, the value the '
    'sequence would have supplied decides (discarded iff value < loss rate). The oracle stands down on the draw-based rule when draws cannot be '
    'attributed (extra draws, a cable wire without a public `action`), on the delivery instant of a packet in flight while `delay_dist` is re-pointed, and '
    'on a wire for which a reconfiguration instant coincides with an arrival / take / delivery instant')

RC_LOSSLESS = [None, None, 0, 0.0]
RC_GAPS = [0, 0, 0.1, 0.2, 0.5, 1, 1, 2, 3]


def reconf_case(rng, cid):
    topo = 'cable' if rng.random() < 0.3 else 'wire'
    nw = 2 if topo == 'cable' else 1
    grid = rng.random() < 0.3
    def lossy():
        if grid:
            return rng.choice([0.125, 0.25, 0.5, 0.75, 0.875, 1, 1.0])
        return rng.choice([1, 1.0, 1.0, 0.5, 0.1, 0.9, 0.3, round(rng.random(), 3)])
    loss0 = rng.choice(RC_LOSSLESS) if rng.random() < 0.55 else lossy()
    def sources(n):
        out = []
        for _ in range(n):
            script = []
            for _ in range(rng.randint(5, 14)):
                gap = rng.choice(RC_GAPS + [round(rng.random() * 4, 3)])
                script.append((gap, [(rng.randrange(3), rng.choice([40, 100, 1500])) for _ in range(rng.choice([1, 1, 1, 2, 3]))]))
            out.append(script)
        return out
    c = {'cid': f'R{cid}', 'kind': 'reconf', 'topo': topo, 'loss': loss0, 'rseed': rng.randrange(1 << 30), 'grid_draws': grid,
         'sources': sources(rng.randint(1, 2))}
    if topo == 'cable':
        c['sources2'] = sources(rng.randint(0, 2))
    # scripted delay callables: #0 is the constructor's (a cable hands it to both directions, whose draws from it cannot be told
    # apart by position: a constant); every further one is installed on one wire only: #j on wire (j - 1) mod (number of wires)
    c['dists'] = [[rng.choice(DELAYS + [0.7, 0.3])] if topo == 'cable' else gen_delays(rng)[1]]
    c['dists'] += [gen_delays(rng)[1] for _ in range(nw * rng.randint(1, 2))]
    span = max(sum(g for g, _ in s) for s in c['sources'] + c.get('sources2', [])) + 1.0
    cur_loss, cur_dist = [loss0] * nw, [0] * nw
    def change():
        w = rng.randrange(nw)
        if rng.random() < 0.65:
            old = cur_loss[w]
            if not old:                      # None / 0 -> p, 1.0 (now and then to another spelling of "no loss")
                new = lossy() if rng.random() < 0.85 else rng.choice(RC_LOSSLESS)
            else:                            # p -> 0 / None, p -> q, p -> 1.0
                new = rng.choice(RC_LOSSLESS) if rng.random() < 0.4 else lossy()
            cur_loss[w] = new
            return [w, 'loss_rate', new]
        mine = [j for j in range(len(c['dists'])) if j == 0 or (j - 1) % nw == w]
        new = rng.choice([j for j in mine if j != cur_dist[w]] or mine)
        cur_dist[w] = new
        return [w, 'delay_dist', new]
    # assigned after construction, before the simulation starts
    c['pre'] = [change()] if rng.random() < 0.15 else []
    # the operator's instants: raw floats, off the grid of the arrivals (sums of the gaps) and of the deliveries (arrival + delay)
    instants = sorted(rng.uniform(0.0, span) for _ in range(rng.randint(1, 4)))
    c['reconf'] = [[t] + change() for t in instants]
    return c


class RWire:
    """what the harness knows about one reconfigured wire: its own puts, the deliveries at the far end, the values its stand-in
    `random` supplied, the delays its scripted callables returned"""

    def __init__(self, name):
        self.name, self.dev = name, None
        self.arrivals, self.deliveries = [], []      # (instant, packet)
        self.draws = []                              # (instant, value) of `random.uniform` attributed to this wire
        self.delays = []                             # (instant, callable number, delay)


class RCRandom:
    """stands in for the `random` module inside onl.netdev.wire: `uniform` answers from a seeded sequence PER WIRE (the caller is
    the wire whose public `action` is the active process; a lone wire is the only caller there can be)"""
    Random, SystemRandom = random.Random, random.SystemRandom

    def __init__(self, env, c, wires):
        self.env, self.grid, self.wires = env, c.get('grid_draws', False), wires
        self.streams = [rc_stream(c, k) for k in range(len(wires))]
        self.other = random.Random(f"{c['rseed']}-x")
        self.unattributed = 0

    def __getattr__(self, name):
        if name.startswith('__'):
            raise AttributeError(name)
        return getattr(random, name)

    def who(self):
        proc = self.env.active_process
        for k, w in enumerate(self.wires):
            if proc is not None and getattr(w.dev, 'action', None) is proc:
                return k
        return 0 if len(self.wires) == 1 else None

    def uniform(self, a, b):
        k = self.who()
        if k is None:
            self.unattributed += 1
            x = rc_next(self.other, self.grid)
        else:
            x = rc_next(self.streams[k], self.grid)
            self.wires[k].draws.append((self.env.now, x))
        return a + (b - a) * x


def rc_stream(c, k):
    return random.Random(f"{c['rseed']}-{k}")


def rc_next(stream, grid):
    return stream.randrange(8) / 8 if grid else stream.random()


def run_reconf(c):
    """-> (wires: [RWire], applied: [(instant or -1.0 for "before the run", wire, attribute, value)], raised, unattributed draws)"""
    env = Environment()
    nw = 2 if c['topo'] == 'cable' else 1
    wires = [RWire('the wire' if nw == 1 else f'wire{k + 1} of the cable') for k in range(nw)]
    rnd = RCRandom(env, c, wires)
    counts = [0] * len(c['dists'])
    stray = [0]
    def mk(j):
        seq = c['dists'][j]
        def dist():
            d = seq[counts[j] % len(seq)]
            counts[j] += 1
            k = rnd.who()
            if k is None:
                stray[0] += 1
            else:
                wires[k].delays.append((env.now, j, d))
            return d
        return dist
    dists = [mk(j) for j in range(len(c['dists']))]
    applied, raised = [], None
    old = wire_mod.random
    wire_mod.random = rnd
    try:
        if nw == 1:
            wires[0].dev = Wire(env, dists[0], c['loss'])
            wires[0].dev.out = BBEnd(env, wires[0])
            entries = [wires[0].dev.put]
        else:
            cable = Cable(env, dists[0], c['loss'])
            a, b = BBEnd(env, wires[1]), BBEnd(env, wires[0])        # a receives what wire2 delivers
            cable.set_endpoints(a, b)
            wires[0].dev, wires[1].dev = cable.wire1, cable.wire2
            entries = [lambda p: a.out.put(p), lambda p: b.out.put(p)]
        def assign(t, w, attr, val):
            setattr(wires[w].dev, attr, dists[val] if attr == 'delay_dist' else val)
            applied.append((t, w, attr, val))
        for w, attr, val in c.get('pre') or []:
            assign(-1.0, w, attr, val)
        def operator():
            for t, w, attr, val in c.get('reconf') or []:
                if t > env.now:
                    yield env.timeout(t - env.now)
                assign(env.now, w, attr, val)           # the instant it really happened (t up to rounding)
        counter = [0]
        def entry(k):
            def put(p):
                wires[k].arrivals.append((env.now, p))
                entries[k](p)
            return put
        for script in c['sources']:
            env.process(feeder(env, entry(0), script, counter))
        for script in (c.get('sources2') or []) if nw == 2 else []:
            env.process(feeder(env, entry(1), script, counter))
        env.process(operator())
        with quiet():
            env.run()
    except BaseException as x:          # the property says the run never raises
        raised = f'{type(x).__name__}: {x}'
    finally:
        wire_mod.random = old
    return wires, applied, raised, rnd.unattributed + stray[0]


def in_force(mine, attr, t, init):
    """(value, instant of the assignment or None for the constructor's) of `attr` in force at instant t; mine = [(instant, attr, value)]"""
    v, since = init, None
    for r, at, val in mine:
        if at == attr and r < t:
            v, since = val, r
    return v, since


def oracle_reconf(c):
    """-> (failures, statistics).  Restates C10 on wires whose `loss_rate` / `delay_dist` are reassigned while they run, each clause
    with the value in force when the wire takes the packet from its store:
    * "with no loss rate every packet is delivered exactly once": a packet taken while `loss_rate` is None / 0 is delivered;
    * "with loss rate p each packet is ... discarded with probability p, and a discarded packet is never delivered": a packet taken
      while `loss_rate` = p is discarded iff the value `random.uniform(0, 1)` yields for it is < p (p = 1: always);
    * "for which the delay distribution yields d": d comes from the callable installed at that instant, and the packet "is delivered
      at max(a + d, delivery time of the previous packet)"; never reordered, never twice."""
    st = collections.Counter()
    fails = []
    def fail(what, sig):
        fails.append({'what': what, 'signature': sig})
    wires, applied, raised, stray = run_reconf(c)
    if raised:
        fail(f'the run raised {raised}', 'wire-raised')
        return fails, st, wires
    # a scripted callable with more than one value installed on two wires: its draws cannot be told apart by position
    users = collections.defaultdict(set)
    for k in range(len(wires)):
        users[0].add(k)
    for _, w, attr, val in applied:
        if attr == 'delay_dist':
            users[val].add(w)
    shared = any(len(u) > 1 and len(c['dists'][j]) > 1 for j, u in users.items())
    for k, w in enumerate(wires):
        acc, dep = w.arrivals, w.deliveries
        st['packets'] += len(acc)
        delivered = {id(p): t for t, p in dep}
        pos = {id(p): i for i, (_, p) in enumerate(acc)}
        seq = [pos.get(id(p), -1) for _, p in dep]
        if len(delivered) != len(dep):
            fail(f'{w.name}: a packet was delivered twice', 'wire-duplicate')
            continue
        if -1 in seq:
            fail(f'{w.name}: a packet was delivered that never entered', 'wire-foreign')
            continue
        if any(x > y for x, y in zip(seq, seq[1:])):
            fail(f'{w.name}: deliveries are not in arrival order: arrival positions {seq[:20]}', 'wire-order')
            continue
        mine = [(r, attr, val) for r, ww, attr, val in applied if ww == k]
        # the instant the wire takes each packet: max(entry, the instant its predecessor was delivered or - taken and - discarded)
        takes, free = [], None
        for a, p in acc:
            h = a if free is None or a > free else free
            takes.append(h)
            free = delivered.get(id(p), h)
        grid = {a for a, _ in acc} | set(takes) | set(delivered.values())
        if any(r in grid for r, _, _ in mine):
            st['wires_stood_down:reconfigured_in_the_instant_of_an_arrival_take_or_delivery'] += 1
            continue
        st['wires_judged'] += 1
        ref, supplied = rc_stream(c, k), []
        aligned = stray == 0
        times = stray == 0 and not shared and len(w.delays) == len(dep)
        kd = nd = lossy_taken = 0
        prev = None
        for (a, p), h in zip(acc, takes):
            got = id(p) in delivered
            rate, since = in_force(mine, 'loss_rate', h, c['loss'])
            how = (f'loss_rate = {rate!r} ' + ('(as constructed)' if since is None else 'since before the run' if since < 0 else
                                               f'since another process assigned it at {since!r}; constructed with {c["loss"]!r}'))
            who = f'{w.name}: packet {p.packet_id} entered at {a!r} and was taken from the store at {h!r} while {how}'
            if since is not None and since >= 0:
                st['packets_taken_after_a_loss_rate_change'] += 1
            if not rate:
                if aligned and kd < len(w.draws) and w.draws[kd][0] <= h:
                    aligned = False                 # a draw without a loss rate: allowed, but positions no longer tell whose draw is whose
                if not got:
                    fail(f'{who}: with no loss rate every packet is delivered; it never was', 'wire-reconf-not-delivered')
                    break
            else:
                while len(supplied) <= lossy_taken:
                    supplied.append(rc_next(ref, c.get('grid_draws', False)))
                x = src = None
                if aligned and kd < len(w.draws) and w.draws[kd][0] == h:
                    x, src = w.draws[kd][1], 'the value random.uniform(0, 1) yielded for it'
                    kd += 1
                elif aligned and kd >= len(w.draws):
                    # the wire has stopped consulting `random` although its loss rate is set: the value the harness's seeded sequence
                    # supplies to the k-th decision under a loss rate decides
                    x, src = supplied[lossy_taken], (f'the wire took no draw for it (nor for any later packet); the value the harness\'s seeded sequence supplies '
                                                    f'to its {lossy_taken + 1}. decision under a loss rate')
                    st['decisions_without_a_draw'] += 1
                else:
                    aligned = False
                lossy_taken += 1
                st['packets_taken_under_a_loss_rate'] += 1
                if rate >= 1:
                    want_lost, why = True, 'every value of uniform(0, 1) lies below that rate: the packet is discarded'
                elif x is None:
                    want_lost = None                # draws cannot be attributed any more: only the certain cases are judged
                else:
                    want_lost = x < rate
                    why = f'{src} is {x!r} {"<" if want_lost else ">="} {rate!r}: the packet is {"discarded" if want_lost else "delivered"}'
                if want_lost is not None and want_lost == got:
                    fail(f'{who}: {why}; it was {("delivered at " + repr(delivered[id(p)])) if got else "never delivered"}', 'wire-reconf-loss-rule')
                    break
                if not got:
                    st['discarded'] += 1
                    if since is not None and since >= 0 and not c['loss']:
                        st['discarded_on_a_wire_built_lossless'] += 1
            if not got:
                continue
            t = delivered[id(p)]
            if times:
                r_, j, d = w.delays[nd]
                nd += 1
                jw, jsince = in_force(mine, 'delay_dist', h, 0)
                if r_ != h:
                    times = False                    # the delay was not drawn at the take: not attributable by position
                elif j != jw:
                    fail(f'{who}: its delay {d!r} was drawn from scripted callable #{j}, but delay_dist was callable #{jw} '
                         f'{"(the constructor argument)" if jsince is None else f"since {jsince!r}"}', 'wire-reconf-delay-dist')
                    break
                elif any(attr == 'delay_dist' and h < r < t for r, attr, _ in mine):
                    st['packets_in_flight_while_delay_dist_changed:not_judged_on_time'] += 1
                else:
                    lit = a + d
                    want = lit if prev is None or lit > prev else prev
                    if jsince is not None and jsince >= 0:
                        st['packets_delayed_by_a_re-pointed_delay_dist'] += 1
                    if not ulp_close(t, want):
                        fail(f'{who}, delay {d!r} from callable #{j}, previous delivery {prev!r}: delivered at {t!r}, '
                             f'max(a + d, previous delivery) = {want!r}', 'wire-reconf-delivery-time')
                        break
            prev = t
        if not aligned:
            st['wires_with_unattributable_draws'] += 1
    return fails, st, wires


def shrink_reconf(c, sig):
    """smaller case with the same oracle failure: fewer sources / entries / packets, then fewer reconfigurations"""
    import copy
    still = lambda cc: any(g['signature'] == sig for g in oracle_reconf(cc)[0])
    best = shrink(c, ['sources', 'sources2'], still, budget=200)
    for key in ('pre', 'reconf'):
        i = len(best.get(key) or []) - 1
        while i >= 0:
            cc = copy.deepcopy(best)
            del cc[key][i]
            try:
                if still(cc):
                    best = cc
            except Exception:
                pass
            i -= 1
    return best


# ---- fan-out: ONE packet object inside several wires at once (replayed per wire by the model + per-wire oracle) ----
# The library hands packet *objects* on: `Hub.put` gives the very object it received to every attached port, a repeater or a
# broadcast medium does the same.  A packet is then inside 2-4 independent wires at once, and every wire owes it its own
# "delivered at max(a + d, previous delivery), never held longer than that" - with a = the instant it entered THAT wire and d = the
# delay THAT wire's distribution yielded for it - whatever the other wires holding the same object do with it in the meantime.
# Workload: 2-4 wires with different delay laws (scales 1/4 .. 8) and loss rates, fed (a) *shared* packets - one source hands the same
# object to several wires in the same instant, either directly (`w.put(p)` for each) or through a real `Hub` whose ports are the wires
# (station s sends: every other station's wire gets the object) - and (b) *private* packets put into one wire only, so that the
# backlogs differ and a shared packet is still queued in one wire's store when another wire delivers it.  Every shared object
# enters each wire at most once and all its puts fall into one instant; the far ends are terminal stations.  (The same object put
# into the SAME wire again while an earlier copy is still queued there is not generated: see the report / DESIGN 3.)
# Each wire is an independent history for the model: its own put / loss-draw / delay sequence goes through the `fifo` replay as a
# case of its own, and `oracle_wire` restates the clause for each wire separately (entry instants recorded by the harness at `put`,
# delays recorded by wrapping that wire's delay distribution).

ASSUMPTIONS.append(
    'fan-out cases: the same Packet object is handed to 2-4 wires in one instant (directly, or by a real Hub whose ports are the wires) next to private '
    'traffic per wire; every wire is replayed as an independent model instance fed only with its own arrivals and draws and judged by the per-wire oracle '
    '(entry instant = the instant of the put into that wire, delay = what that wire\'s own delay_dist returned for it). An object enters each wire at most '
    'once; re-sending the same object into a wire that still holds an earlier copy of it is outside these cases')

FAN_SCALES = [0.25, 0.5, 1, 2, 4, 8]


def fanout_case(rng, cid):
    nw = rng.randint(2, 4)
    via = rng.choice(['direct', 'hub', 'hub'])
    scales = rng.sample(FAN_SCALES, nw)
    wires = []
    for k in range(nw):
        mode, delays = gen_delays(rng)
        if mode == 'zero' and rng.random() < 0.7:
            mode, delays = gen_delays(rng)
        loss = rng.choice([None, None, None, None, None, 0, 0.0, 0.25, 0.5, round(rng.random() * 0.5, 3)])
        wires.append({'delay_mode': mode, 'delays': [d * scales[k] for d in delays], 'loss': loss})
    tenths = rng.random() < 0.3
    sources = []
    for _ in range(rng.randint(1, 3)):
        script = []
        for _ in range(rng.randint(2, 8)):
            gap = rng.choice([0, 0.1, 0.1, 0.2, 0.3, 0.7]) if tenths else rng.choice(GAPS + [round(rng.random() * 6, 3)])
            burst = []
            for _ in range(rng.choice([1, 1, 2, 2, 3, 5])):
                # src >= 0: a shared packet sent by station src (it goes to every wire but src's own; src = nw: to all of them);
                # src = -1 - k: a private packet put into wire k only
                src = rng.randint(0, nw) if rng.random() < 0.7 else -1 - rng.randrange(nw)
                burst.append([src, rng.randrange(3), rng.choice([40, 100, 1500])])
            script.append((gap, burst))
        sources.append(script)
    return {'cid': f'F{cid}', 'kind': 'fanout', 'via': via, 'wires': wires, 'rseed': rng.randrange(1 << 30),
            'grid_draws': rng.random() < 0.3, 'sources': sources}


class FanDraws(WireDraws):
    """WireDraws with one scripted delay callable PER WIRE (own list, own position)"""

    def __init__(self, env, rseed, grid=False):
        super().__init__(env, rseed, [0], grid)

    def dist_for(self, delays):
        n = [0]
        def dist():
            d = delays[n[0] % len(delays)]
            n[0] += 1
            for s in self.sinks:
                if not s.taken:
                    s.taken.append(0.0)
                s.taken.append(d)
            self.delay_calls[self.env.active_process].append((self.env.now, d))
            return d
        return dist


class Station:
    """terminal device at the far end of a wire / an endpoint of the hub"""
    out = None

    def __init__(self, env, name):
        self.env, self.element_id, self.got = env, name, []

    def put(self, packet):
        self.got.append((self.env.now, packet))


def run_fanout(c):
    """-> ({sub-case id: FifoRun}, shared: {id(packet): [wire indices it was handed to]}) - one FifoRun per wire, all in one Environment"""
    from onl.netdev import Hub
    env = Environment()
    wd = FanDraws(env, c['rseed'], c.get('grid_draws', False))
    nw = len(c['wires'])
    old = wire_mod.random
    wire_mod.random = wd
    runs, raised, blind = {}, None, []
    handed = collections.defaultdict(list)       # id(packet) -> wires it entered, from the put taps
    keep = []
    try:
        wires = [Wire(env, wd.dist_for(w['delays']), w['loss'], wire_id=k) for k, w in enumerate(c['wires'])]
        stations = [Station(env, f'st{k}') for k in range(nw + 1)]
        hub = None
        if c['via'] == 'hub':
            decoy = Hub(env, [Station(env, 'x0'), Station(env, 'x1')], [None, None])      # another hub lives beside it
            hub = Hub(env, list(stations), list(wires) + [None])
        for k, w in enumerate(wires):
            r = FifoRun(env, w, snap_wire, Sink())
            wd.sinks.append(r.draws)
            w.out = Forward(r, stations[k].put)
            blind += untap_if_blind(r)
            runs[f"{c['cid']}w{k}"] = r
        counter = [0]
        def feed(script):
            for gap, burst in script:
                yield env.timeout(gap)
                for src, flow, size in burst:
                    counter[0] += 1
                    if src < 0:
                        wires[-1 - src].put(make_packet(env, counter[0], flow, size))
                        continue
                    p = make_packet(env, counter[0], flow, size, src=f'st{src}')
                    keep.append(p)
                    if hub is not None:
                        stations[src].out.put(p)                 # = hub.put: the hub repeats the object to every other port
                    else:
                        for k in range(nw):
                            if k != src:
                                wires[k].put(p)
        for script in c['sources']:
            env.process(feed(script))
        try:
            if blind:
                env.run()
            else:
                run_many(env, list(runs.values()))
        except BaseException as x:          # the property says the run never raises
            raised = f'{type(x).__name__}: {x}'
    finally:
        wire_mod.random = old
    shared = {id(p) for p in keep}
    for k, r in enumerate(runs.values()):
        r.raised, r.wd, r.blind = raised, wd, blind
        for _, p in r.arrivals:
            if id(p) in shared:
                handed[id(p)].append(k)
    return runs, dict(handed), keep


def oracle_fanout(c, runs, handed):
    """C10 per wire: every wire of the fan-out is judged on its own puts, draws and deliveries by `oracle_wire` ("a packet entering a
    Wire at time a for which the delay distribution yields d is delivered at max(a + d, delivery time of the previous packet), never
    before a + d, never reordered and never held longer than that"; loss by the wire's own rate and draws)"""
    fails = []
    rl = list(runs.values())
    for k, (sid, r) in enumerate(runs.items()):
        name = f"wire {k} of {len(rl)} fed by one source {'through a Hub' if c['via'] == 'hub' else 'directly'} (the same Packet objects are inside several of the wires at once)"
        for f in oracle_wire({'loss': c['wires'][k]['loss']}, r, name):
            if f['signature'] in ('wire-delivery-time', 'wire-delivery-literal'):
                # which other wire had the object and when it delivered it
                import re
                m = re.search(r'packet (\d+)', f['what'])
                pid = int(m.group(1)) if m else None
                obj = next((p for _, p in r.arrivals if p.packet_id == pid), None)
                if obj is not None and id(obj) in handed:
                    other = [(j, next((t for t, q in rl[j].departures if q is obj), None)) for j in handed[id(obj)] if j != k]
                    f['what'] += '; the same object was also handed to ' + ', '.join(
                        f'wire {j} (delivered there at {t!r})' if t is not None else f'wire {j} (not delivered there)' for j, t in other)
            fails.append(f)
    return fails


def fanout_stats(c, runs, handed, keep):
    """how often the shape the family is built for occurred: a shared object still queued in one wire's store at the instant another
    wire delivers it (and, of these, with a delay longer than the rest of its wait: a wire that re-timed it from then would show)"""
    st = collections.Counter()
    rl = list(runs.values())
    info = []
    for r in rl:
        delivered = {id(p): t for t, p in r.departures}
        take, free, dl = {}, None, {}
        proc = getattr(r.dev, 'action', None)
        ds = [d for _, d in r.wd.delay_calls.get(proc, [])]
        nd = 0
        for a, p in r.arrivals:
            h = a if free is None or a > free else free
            take[id(p)] = (a, h)
            if id(p) in delivered and nd < len(ds):
                dl[id(p)] = ds[nd]; nd += 1
            free = delivered.get(id(p), h)
        info.append((delivered, take, dl))
    st['shared_objects'] = len(handed)
    st['shared_objects_in_3_or_more_wires'] = sum(1 for v in handed.values() if len(v) >= 3)
    st['private_packets'] = sum(len(r.arrivals) for r in rl) - sum(len(v) for v in handed.values())
    for pid, ws in handed.items():
        hit = sens = False
        for x in ws:
            tx = info[x][0].get(pid)
            if tx is None:
                continue
            for y in ws:
                if y == x or pid not in info[y][0]:
                    continue
                a, h = info[y][1][pid]
                if a < tx <= h:
                    hit = True
                    if info[y][2].get(pid, 0) > h - tx:
                        sens = True
        st['shared_objects_still_queued_in_one_wire_when_another_delivered_them'] += hit
        st['...of_these_with_a_delay_longer_than_the_remaining_wait'] += sens
    return st


# ---- BEGIN wirek leg: the Wire as a process on the kernel MODEL (lean/OnlVerif/Net/WireOnK.lean, driver mode `wirek`) ----
@guarded_leg(None)
def run_wirek(ctx, cov=None, dis=None, orc=None):
    """Extra leg for Props/C10K.lean: the K program of the Wire, run at Float by the compiled driver, against the real Wire
    with a real source process on the real kernel (public API only), compared line for line; plus the delivery recurrence
    restated over the implementation's own observations.  Called twice from run(): with no lists it answers whether
    ctx.replay is a replay of this leg (then it runs only this leg); with them it appends its results in place."""
    from vlib.util import unbits
    from onl.packet import Packet

    def replay_cases():
        j = json.load(open(ctx.replay))
        cs = ([j['case']] if j.get('case') else []) + [d['case'] for d in (j.get('broken_correspondence') or []) if d.get('case')]
        return [c for c in cs if c.get('kind') == 'wirek']

    if cov is None:                       # first call: is this a replay of a wirek case?  then run only this leg
        if not (ctx.replay and replay_cases()):
            return None
        cov, dis, orc = {'evaluations': 0, 'distinct_nontrivial': 0, 'rule': 'replay of a wirek case', 'samples': []}, [], []
        run_wirek(ctx, cov, dis, orc)
        k = cov['wire_on_kernel_model']
        cov.update(evaluations=k['evaluations'], distinct_nontrivial=k['distinct_nontrivial'], samples=[k['sample']])
        return dict(coverage=cov, disagreements=dis, oracle_failures=orc)

    def gen(rng, cid):
        loss = rng.choice([None, None, 0.0, 0.25, 0.5, 0.5, 1.0, rng.random()])
        n = rng.randint(0, 12)
        arr = [rng.choice([0, 0, 0, 0.5, 1, 1, 2, 3, 5, round(rng.random() * 4, 3)]) for _ in range(n)]
        mode = rng.choice(['const', 'dec', 'zero', 'rand', 'dyadic'])
        if mode == 'const':
            d0 = rng.choice([0.5, 1, 2, 3.5]); delays = [d0] * n
        elif mode == 'dec':
            delays = [max(0.0, 6 - 0.75 * i) for i in range(n)]
        elif mode == 'zero':
            delays = [0.0] * n
        elif mode == 'rand':
            delays = [rng.random() * 5 for _ in range(n)]
        else:
            delays = [rng.choice([0, 0.25, 0.5, 1, 1.5, 2, 4]) for _ in range(n)]
        losses = [rng.randrange(8) / 8 if rng.random() < 0.5 else rng.random() for _ in range(n)]
        return {'cid': f'w{cid}', 'kind': 'wirek', 'loss': loss, 'arrivals': arr, 'delays': delays, 'losses': losses}

    def text(c):
        return ([f"CASE {c['cid']} {'None' if c['loss'] is None else bits(c['loss'])}"] + [f'arr {bits(g)}' for g in c['arrivals']]
                + [f'loss {bits(x)}' for x in c['losses']] + [f'delay {bits(d)}' for d in c['delays']] + ['END'])

    def impl(c):
        env = Environment()
        losses, delays, outs = list(c['losses']), list(c['delays']), []

        class Draws:                      # stands in for the `random` module inside onl.netdev.wire
            def uniform(self, a, b):
                return losses.pop(0) if losses else 0.0

        def delay_dist():
            return delays.pop(0) if delays else 0.0
        wire = Wire(env, delay_dist, c['loss'])

        class Rec:
            def put(self, packet):
                outs.append(f'out {packet.packet_id} {bits(env.now)}')
        wire.out = Rec()

        def src():
            for i, gap in enumerate(c['arrivals']):
                yield env.timeout(gap)
                wire.put(Packet(env.now, 100, i, src='src', flow_id=0))
        env.process(src())
        old = wire_mod.random
        wire_mod.random = Draws()
        try:
            with quiet():
                env.run()
            tag = 'RET'
        except BaseException as x:        # noqa - the property says the run never raises
            tag = f'RAISED {type(x).__name__}'
        finally:
            wire_mod.random = old
        return [tag] + outs + [f'cells rec={wire.packets_rec}', f'now {bits(env.now)}']

    def oracle_k(c, lines):
        """C10 restated over the implementation's own observations: packet k (arrival a_k = sum of the gaps) is lost iff loss_rate is
        truthy and its draw is < loss_rate; otherwise it is delivered at max(a_k + d, previous delivery) (within 4 ulp: the wire sleeps
        `d - (now - a_k)`), in arrival order"""
        if lines[0] != 'RET':
            return [{'what': f'the run ended with {lines[0]}', 'signature': 'wirek-raised'}]
        outs = [(int(l.split()[1]), unbits(int(l.split()[2]))) for l in lines if l.startswith('out ')]
        t, prev, want, nl, nd = 0.0, None, [], 0, 0
        for k, gap in enumerate(c['arrivals']):
            t = t + gap
            lost = False
            if c['loss']:
                x = c['losses'][nl] if nl < len(c['losses']) else 0.0
                nl += 1
                lost = x < c['loss']
            if lost:
                continue
            d = c['delays'][nd] if nd < len(c['delays']) else 0.0
            nd += 1
            prev = t + d if prev is None or t + d > prev else prev
            want.append((k, prev))
        if [i for i, _ in outs] != [i for i, _ in want]:
            return [{'what': f'delivered packets {[i for i, _ in outs][:8]}, prescribed {[i for i, _ in want][:8]}', 'signature': 'wirek-which'}]
        for (i, t1), (_, t2) in zip(outs, want):
            if not ulp_close(t1, t2):
                return [{'what': f'packet {i} delivered at {t1!r}, prescribed max(a + d, previous delivery) = {t2!r}', 'signature': 'wirek-delivery-time'}]
        return []

    rng = random.Random(f'C10-wirek-{ctx.seed}')
    cases = replay_cases() if ctx.replay else [gen(rng, i) for i in range(300 if ctx.quick else 5000)]
    txt, got = [], {}
    for c in cases:
        got[c['cid']] = impl(c)
        txt += text(c)
    model = split_cases(run_driver('wirek', '\n'.join(txt) + '\n')) if cases else {}
    hist, nontriv = collections.Counter(), 0
    for c in cases:
        a, b = got[c['cid']], model.get(c['cid'])
        if a != b:
            i = next((i for i in range(max(len(a), len(b or []))) if i >= len(a) or not b or i >= len(b) or a[i] != b[i]), 0)
            dis.append({'case': c, 'detail': f'wirek line {i}: impl `{a[i] if i < len(a) else None}` model `{b[i] if b and i < len(b) else None}`',
                        'impl': a[:300], 'model': (b or [])[:300]})
        for f in oracle_k(c, a):
            f['case'] = c; f['trace'] = a[:300]
            orc.append(f)
        ts = [l.split()[2] for l in a if l.startswith('out ')]
        caught = sum(1 for x, y in zip(ts, ts[1:]) if x == y)
        lost = len(c['arrivals']) - len(ts)
        hist['delivered'] += len(ts); hist['lost'] += lost; hist['caught_up_with_predecessor'] += caught
        hist['loss:' + ('None' if c['loss'] is None else 'zero' if not c['loss'] else 'one' if c['loss'] >= 1 else 'p')] += 1
        if caught or lost:
            nontriv += 1
    cov['wire_on_kernel_model'] = {
        'evaluations': len(cases), 'distinct_nontrivial': nontriv, 'lines_compared': sum(len(v) for v in got.values()),
        'rule': 'random arrival gaps, delay sequences (constant/decreasing/zero/random/dyadic) and loss draws run by the K program at Float '
                '(driver mode wirek) and by the real Wire with a real source process under env.run(); non-trivial = a loss or a packet that '
                'caught up with its predecessor', 'histogram': dict(sorted(hist.items())), 'sample': cases[0] if cases else None}
    return None
# ---- END wirek leg ----


def run(ctx):
    wk = run_wirek(ctx)                      # wirek leg: a replay of one of its cases runs only that leg
    if wk is not None:
        return wk
    rng = random.Random(f'C10-{ctx.seed}')
    if ctx.replay:
        j = json.load(open(ctx.replay))
        cases = [j['case']] if j.get('case') else [d['case'] for d in j.get('broken_correspondence', [])]
    else:
        cases = [gen_case(rng, i) for i in range(600 if ctx.quick else 12000)]
        cases += [bb_case(rng, i) for i in range(240 if ctx.quick else 4000)]
        cases += [reconf_case(rng, i) for i in range(60 if ctx.quick else 1200)]      # a tenth of the replayed cases
        cases += [fanout_case(rng, i) for i in range(150 if ctx.quick else 3000)]
    bbcases = [c for c in cases if c.get('kind') == 'bb']
    rccases = [c for c in cases if c.get('kind') == 'reconf']
    fancases = [c for c in cases if c.get('kind') == 'fanout']
    cases = [c for c in cases if c.get('kind') not in ('bb', 'reconf', 'fanout')]
    text, allruns = [], {}
    for c in cases:
        runs = run_impl(c)
        allruns[c['cid']] = runs
        for sid, r in runs.items():
            text.append(header(sid, c)); text += r.acts; text.append('END')
    model = split_cases(run_driver('fifo', '\n'.join(text) + '\n'))
    dis, orc = [], []
    hist = collections.Counter()
    distinct = set(); nontriv = 0; samples = []; shrunk = 0
    for c in cases:
        runs = allruns[c['cid']]
        nt = False
        for sid, r in runs.items():
            a, b = r.obs, model.get(sid)
            for l in r.acts:
                hist[l.split(' ')[0]] += 1
            hist['lost'] += len(r.lost)
            hist['delivered'] += len(r.departures)
            # non-trivial: a packet entered while an earlier one was still inside and left at its predecessor's instant, or a loss
            dts = [t for t, _ in r.departures]
            if r.lost or any(x == y for x, y in zip(dts, dts[1:])):
                nt = True
            if r.blind:
                dis.append({'case': c, 'detail': f'wire {sid} has no public {"/".join(sorted(set(r.blind)))}: it cannot be stepped against the LTS',
                            'impl': [], 'model': (b or [])[:10]})
            elif a != b:
                i = next((i for i in range(max(len(a), len(b or []))) if i >= len(a) or not b or i >= len(b) or a[i] != b[i]), 0)
                dis.append({'case': c, 'detail': f'wire {sid} line {i}: impl `{a[i] if i < len(a) else None}` model `{b[i] if b and i < len(b) else None}`',
                            'impl': a[:300], 'model': (b or [])[:300]})
        hist['kind:' + c['kind']] += 1
        hist['delay:' + c['delay_mode']] += 1
        hist['draw_equals_loss_rate'] += sum(1 for r in runs.values() for calls in r.wd.loss_calls.values() for _, x in calls if x == c['loss']) // len(runs)
        hist['loss:' + ('None' if c['loss'] is None else 'zero' if not c['loss'] else 'one' if c['loss'] >= 1 else 'p')] += 1
        key = json.dumps({k: v for k, v in c.items() if k != 'cid'}, sort_keys=True)
        if nt and key not in distinct:
            nontriv += 1
        distinct.add(key)
        for f in oracle(c, runs):
            f['case'] = c
            f['trace'] = {sid: r.obs[:200] for sid, r in runs.items()}
            if shrunk < 3 and not ctx.replay:       # minimise the first failing inputs
                shrunk += 1
                sig = f['signature']
                small = shrink(c, ['sources', 'sources2'], lambda cc: any(g['signature'] == sig for g in oracle(cc, run_impl(cc))))
                runs2 = run_impl(small)
                f2 = next((g for g in oracle(small, runs2) if g['signature'] == sig), None)
                if f2:
                    f = dict(f2, case=small, trace={sid: r.obs[:200] for sid, r in runs2.items()}, shrunk_from=c['cid'])
            orc.append(f)
        if len(samples) < 2 and nt:
            samples.append({'case': c, 'actions': {sid: r.acts[:30] for sid, r in runs.items()}})
    bbhist, bborc = collections.Counter(), []
    for c in bbcases:
        fs, wires = oracle_bb(c)
        bbhist['topo:' + c['topo']] += 1
        bbhist['loss:' + ('None' if c['loss'] is None else 'zero' if not c['loss'] else 'one' if c['loss'] >= 1 else 'p')] += 1
        bbhist['packets'] += sum(len(w.arrivals) for w in wires)
        for w in wires:
            ts = [t for t, _ in w.deliveries]
            bbhist['caught_up_with_predecessor'] += sum(1 for x, y in zip(ts, ts[1:]) if x == y)
        if c['loss'] and 0 < c['loss'] < 1 and any(coincidence(c['loss'], len(w.arrivals)) <= 2.0 ** -24 for w in wires):
            bbhist['loss_patterns_compared'] += 1
        for f in fs:
            f['case'] = c
            if shrunk < 3 and not ctx.replay:
                shrunk += 1
                sig = f['signature']
                small = shrink(c, ['sources'], lambda cc: any(g['signature'] == sig for g in oracle_bb(cc)[0]))
                f2 = next((g for g in oracle_bb(small)[0] if g['signature'] == sig), None)
                if f2:
                    f = dict(f2, case=small, shrunk_from=c['cid'])
            bborc.append(f)
    rchist, rcorc, rcnontriv = collections.Counter(), [], 0
    for c in rccases:
        fs, st, wires = oracle_reconf(c)
        rchist.update(st)
        rchist['topo:' + c['topo']] += 1
        for _, _, attr, val in (c.get('reconf') or []) + [[-1.0] + x for x in c.get('pre') or []]:
            rchist['assigned:' + attr + (':' + ('None' if val is None else 'zero' if not val else 'one' if val >= 1 else 'p') if attr == 'loss_rate' else '')] += 1
        # non-trivial: a packet was taken after a reconfiguration of its wire had changed what the property prescribes for it
        if st['packets_taken_after_a_loss_rate_change'] or st['packets_delayed_by_a_re-pointed_delay_dist']:
            rcnontriv += 1
        for f in fs:
            f['case'] = c
            if shrunk < 3 and not ctx.replay and f['signature'].startswith('wire-reconf'):
                shrunk += 1
                small = shrink_reconf(c, f['signature'])
                f2 = next((g for g in oracle_reconf(small)[0] if g['signature'] == f['signature']), None)
                if f2:
                    f = dict(f2, case=small, shrunk_from=c['cid'])
            f['trace'] = {w.name: {'entered': [(t, p.packet_id) for t, p in w.arrivals][:60], 'delivered': [(t, p.packet_id) for t, p in w.deliveries][:60]}
                          for w in (oracle_reconf(f['case'])[2] if f['case'] is not c else wires)}
            rcorc.append(f)
    # fan-out: every wire of a case is a model case of its own (its own puts / draws) and is judged by the per-wire oracle
    fanhist, fanorc, fannontriv, fanlines, fanwires = collections.Counter(), [], 0, 0, 0
    fanruns = {c['cid']: run_fanout(c) for c in fancases}
    ftext = []
    for c in fancases:
        for k, (sid, r) in enumerate(fanruns[c['cid']][0].items()):
            ftext.append(header(sid, c['wires'][k])); ftext += r.acts; ftext.append('END')
    fmodel = split_cases(run_driver('fifo', '\n'.join(ftext) + '\n')) if ftext else {}
    for c in fancases:
        runs, handed, keep = fanruns[c['cid']]
        for k, (sid, r) in enumerate(runs.items()):
            a, b = r.obs, fmodel.get(sid)
            fanwires += 1
            fanlines += len(r.acts)
            if r.blind:
                dis.append({'case': c, 'detail': f'fan-out wire {sid} has no public {"/".join(sorted(set(r.blind)))}: it cannot be stepped against the LTS',
                            'impl': [], 'model': (b or [])[:10]})
            elif a != b:
                i = next((i for i in range(max(len(a), len(b or []))) if i >= len(a) or not b or i >= len(b) or a[i] != b[i]), 0)
                dis.append({'case': c, 'detail': f'fan-out wire {sid} line {i}: impl `{a[i] if i < len(a) else None}` model `{b[i] if b and i < len(b) else None}`',
                            'impl': a[:300], 'model': (b or [])[:300]})
            w = c['wires'][k]
            fanhist['delay:' + w['delay_mode']] += 1
            fanhist['loss:' + ('None' if w['loss'] is None else 'zero' if not w['loss'] else 'p')] += 1
            fanhist['lost'] += len(r.lost)
            fanhist['delivered'] += len(r.departures)
        st = fanout_stats(c, runs, handed, keep)
        fanhist.update(st)
        fanhist['via:' + c['via']] += 1
        fanhist[f'wires:{len(runs)}'] += 1
        if st['shared_objects_still_queued_in_one_wire_when_another_delivered_them']:
            fannontriv += 1
        for f in oracle_fanout(c, runs, handed):
            f['case'] = c
            f['trace'] = {sid: r.obs[:200] for sid, r in runs.items()}
            if shrunk < 3 and not ctx.replay:
                shrunk += 1
                sig = f['signature']
                def still(cc):
                    rr, hh, _ = run_fanout(cc)
                    return any(g['signature'] == sig for g in oracle_fanout(cc, rr, hh))
                small = shrink(c, ['sources'], still)
                runs2, handed2, _ = run_fanout(small)
                f2 = next((g for g in oracle_fanout(small, runs2, handed2) if g['signature'] == sig), None)
                if f2:
                    f = dict(f2, case=small, trace={sid: r.obs[:200] for sid, r in runs2.items()}, shrunk_from=c['cid'])
            fanorc.append(f)
    orc = bborc + rcorc + fanorc + orc     # the black-box failures name the clause most directly: they get the replay files
    cov = {'evaluations': len(cases), 'distinct_nontrivial': nontriv,
           'rule': 'seeded random wire/cable configurations (loss None/0/1/p, delay sequences constant/decreasing/zero/random/dyadic) x arrival workloads '
                   '(1-3 sources per direction, bursts, arrivals while earlier packets propagate, echo traffic on cables); non-trivial = distinct case '
                   'with a loss or with a packet that caught up with its predecessor (delivered at the same instant)',
           'samples': samples, 'traces_validated_against_impl': sum(len(r) for r in allruns.values()) - len(dis),
           'action_lines_replayed': sum(len(r.acts) for rs in allruns.values() for r in rs.values()),
           'operation_histogram': dict(sorted(hist.items()))}
    cov['oracle_only_cases'] = {'evaluations': len(bbcases), 'what': 'black-box environments of 1-2 wires / cables with identical traffic (put/out/env.run only): '
                                'order, exact clamping to the previous delivery, loss patterns across devices and across seeds', 'histogram': dict(sorted(bbhist.items()))}
    cov['reconfigured_oracle_only'] = {
        'evaluations': len(rccases), 'distinct_nontrivial': rcnontriv,
        'what': 'a running wire / the two wires of a cable whose public `loss_rate` (None/0 -> p, p -> 0, p -> q, -> 1.0) and `delay_dist` (re-pointed to another '
                'scripted callable) are reassigned between packets by an operator process (1-4 times, now and then once more before the run); loss rule, '
                'delivery instant, order and exactly-once judged with the values in force when the wire takes each packet; non-trivial = a packet was taken '
                'under a reassigned loss rate or delayed by a re-pointed delay_dist', 'histogram': dict(sorted(rchist.items())),
        'sample': rccases[0] if rccases else None}
    cov['fan_out_replayed_per_wire'] = {
        'evaluations': len(fancases), 'distinct_nontrivial': fannontriv, 'wires_replayed_as_model_cases': fanwires, 'action_lines_replayed': fanlines,
        'what': 'the same Packet object handed to 2-4 wires in one instant (directly / by a real Hub whose ports are the wires) next to private traffic per '
                'wire; wires with different delay laws (scales 1/4..8), loss rates and backlogs; every wire replayed by the model on its own history and '
                'judged by the per-wire oracle; non-trivial = a shared object was still queued in one wire when another wire delivered it',
        'histogram': dict(sorted(fanhist.items())), 'sample': fancases[0] if fancases else None}
    cov.update({'translated': _PREP.get('translated', []), 'generated_files_rewritten': _PREP.get('rewritten', []),
                'generated_diff_vs_pinned': _PREP.get('diff_vs_pinned', []), 'bridge_theorems': BRIDGES, 'hand_modelled': HAND_MODELLED})
    run_wirek(ctx, cov, dis, orc)            # wirek leg: appends its coverage, disagreements and oracle failures in place
    return {'coverage': cov, 'disagreements': dis, 'oracle_failures': orc}
