"""Validation of the C18 check: re-introduce the four repaired defects and 19 hand-made mutations in a scratch copy of /repo\n(never in /repo), run `ONL_REPO=<copy> ./check C18` on each and print how it was caught.  Usage: /venv/bin/python harness/c18_mutants.py [indices]"""
import subprocess, shutil, os, json, sys, re
VERIF=os.path.dirname(os.path.dirname(os.path.abspath(__file__)))
MUT=os.path.join(os.environ.get('TMPDIR','/tmp'),'onl_repo_mut_c18')
def fresh():
    shutil.rmtree(MUT, ignore_errors=True)
    shutil.copytree('/repo', MUT)
def sub(path, old, new, count=1):
    p=os.path.join(MUT,path); s=open(p).read()
    assert old in s, (path, old)
    s=s.replace(old,new,count); open(p,'w').write(s)
def revert(commit):
    d=subprocess.run(['git','-C','/repo','show',commit],capture_output=True,text=True).stdout
    r=subprocess.run(['git','-C',MUT,'apply','-R'],input=d,capture_output=True,text=True)
    assert r.returncode==0, r.stderr
MUTS=[
 ('revert 34948b5 (FIBDemux refuses empty table)', lambda: revert('34948b5')),
 ('revert 337a357 (Hub without ports)', lambda: revert('337a357')),
 ('revert 1c1e5d4 (FIBDemux without output devices: AssertionError)', lambda: revert('1c1e5d4')),
 ('revert 194df48 (copies share perhop_time / priorities)', lambda: revert('194df48')),
 ('FlowDemux < -> <=', lambda: sub('onl/netdev/demux.py','if flow_id < len(self.outs):','if flow_id <= len(self.outs):')),
 ('FlowDemux ignores default_out', lambda: sub('onl/netdev/demux.py','            if self.default_out:\n                self.default_out.put(packet)\n\n\nclass RandomDemux','            pass\n\n\nclass RandomDemux')),
 ('FIBDemux checks fib before ends', lambda: sub('onl/netdev/demux.py',"""        if flow_id in self.ends:
            self.ends[flow_id].put(packet)
        else:""","""        if self.outs and flow_id in self._fib and self._fib[flow_id] < len(self.outs):
            self.outs[self._fib[flow_id]].put(packet)
        elif flow_id in self.ends:
            self.ends[flow_id].put(packet)
        else:""")),
 ('FIBDemux: unknown flow also dropped when default set (no default)', lambda: sub('onl/netdev/demux.py','                if self.default_out:\n                    self.default_out.put(packet)','                pass')),
 ('FIBDemux: sends to table output AND default', lambda: sub('onl/netdev/demux.py','                self.outs[self._fib[packet.flow_id]].put(packet)\n','                self.outs[self._fib[packet.flow_id]].put(packet)\n                if self.default_out:\n                    self.default_out.put(packet)\n')),
 ('Hub compares packet.dst', lambda: sub('onl/netdev/hub.py','endpoint.element_id == packet.src','endpoint.element_id == packet.dst')),
 ('Hub bypasses port device', lambda: sub('onl/netdev/hub.py','            self.outs.append(port)','            self.outs.append(endpoint)')),
 ('Splitter sends the original to both', lambda: sub('onl/netdev/splitter.py','self.out2.put(copy(packet))','self.out2.put(packet)')),
 ('NSplitter shares one copy among the other outputs', lambda: sub('onl/netdev/splitter.py','        for out in self.outs[1:]:\n            if out:\n                out.put(copy(packet))','        cp = copy(packet)\n        for out in self.outs[1:]:\n            if out:\n                out.put(cp)')),
 ('SimplePacketSwitch builds nports-1 ports', lambda: sub('onl/netdev/switch.py','        for port in range(nports):\n            self.ports.append(\n                Port(','        for port in range(max(nports - 1, 0)):\n            self.ports.append(\n                Port(')),
 ('FairPacketSwitch demux gets reversed egress list', lambda: sub('onl/netdev/switch.py','outs=self.egress_ports, default_out=None','outs=self.egress_ports[::-1], default_out=None')),
 ('fat tree aggr_node formula off by one', lambda: sub('onl/topo/fattree.py','aggr_node = n_core + (core_node // (k // 2)) + (k * pod)','aggr_node = n_core + (core_node // (k // 2)) + (k * pod) + 1')),
 ('fat tree hosts: k//2 - 1 per edge for last', lambda: sub('onl/topo/fattree.py','topo.number_of_nodes() + k // 2)\n            topo.add_nodes_from(leaf_nodes','topo.number_of_nodes() + max(k // 2 - (1 if u % 7 == 6 else 0), 1))\n            topo.add_nodes_from(leaf_nodes')),
 ('fat tree core loop pod order reversed (port numbering)', lambda: sub('onl/topo/fattree.py','            for pod in range(k):\n                aggr_node','            for pod in reversed(range(k)):\n                aggr_node')),
 ('generate_fib uses nexthop_to_port[a]', lambda: sub('onl/topo/fattree.py','self.topo.nodes[a]["flow_to_port"][flow.fid] = self.topo.nodes[a]["nexthop_to_port"][z]','self.topo.nodes[a]["flow_to_port"][flow.fid] = self.topo.nodes[a]["nexthop_to_port"].get(a, 0)')),
 ('reverse entry uses fid + 1000', lambda: sub('onl/topo/fattree.py','self.topo.nodes[z]["flow_to_nexthop"][flow.fid + 10000] = a','self.topo.nodes[z]["flow_to_nexthop"][flow.fid + 1000] = a')),
 ('generate_fib keys entries by dict key f of a shifted dict (flow_to_nexthop[f] stores a)', lambda: sub('onl/topo/fattree.py','self.topo.nodes[a]["flow_to_nexthop"][flow.fid] = z','self.topo.nodes[a]["flow_to_nexthop"][flow.fid] = z if len(flow.path) != 5 else a')),
 ('generate_flows may pick src == dst', lambda: sub('onl/topo/fattree.py','src, dst = sample(sorted(self.hosts), 2)','src = sample(sorted(self.hosts), 1)[0]; dst = sample(sorted(self.hosts), 1)[0]')),
 ('generate_flows takes a non-shortest simple path', lambda: sub('onl/topo/fattree.py','sample(list(nx.all_shortest_paths(self.topo, src, dst)), 1)[0]','(lambda q: q[:2] + q[:1] + q[1:])(sample(list(nx.all_shortest_paths(self.topo, src, dst)), 1)[0])')),
]
only = sys.argv[1:] 
for i,(name,fn) in enumerate(MUTS):
    if only and str(i) not in only: continue
    fresh(); fn()
    env=dict(os.environ, ONL_REPO=MUT, VERIF_SEED='0')
    r=subprocess.run(['./check','C18'],cwd=VERIF,env=env,capture_output=True,text=True,timeout=600)
    out=(r.stdout+r.stderr).strip().splitlines()
    ev=json.load(open(os.path.join(VERIF,'evidence','C18.json')))['coverage']
    vio=[l for l in out if l.startswith('VIOLATION')]
    what=''
    if vio:
        m=re.search(r'replay=(\S+)',vio[0]); rp=json.load(open(os.path.join(VERIF,m.group(1))))
        what=str(rp.get("what") or (rp.get("broken_correspondence") or [{}])[0].get("detail") or rp.get("infrastructure"))[-400:]
    print(f'[{i}] {name}\n     exit={r.returncode} violations={len(vio)} disagreements={ev["correspondence_disagreements"]} oracle_failing_inputs={ev["oracle_failures"]} (all={ev.get("oracle_failures_total")})\n     {vio[0] if vio else out[-1][:200]}\n     first: {what}', flush=True)
shutil.rmtree(MUT, ignore_errors=True)
