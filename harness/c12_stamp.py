"""C12 (WFQ / VirtualClock half) - schedulers are work-conserving, non-preemptive, rate-exact and per-flow FIFO."""
import random, collections, json
from harness.stamp import gen_case, replay, first_diff
from vlib.util import bits

ASSUMPTIONS = [
    'WFQ/VC: flows are configured in flow2class and their classes in the weight / vtick table; weights, vticks, rate > 0; sizes positive integers; `out` attached',
    'WFQ/VC: the start of a transmission is the burst in which send_packet sets current_packet; it lies in the same instant as the service decision',
    'WFQ/VC: the scheduler loop on the real kernel refines the StampServer LTS: checked by replay, not proved',
]


def oracle(c, run):
    """restates the C12 clauses over the implementation's own trace (taps + public figures)"""
    fails = []
    rate = c['rate']
    if run.raised:
        where, typ, msg, pid, flow = run.raised
        if not (c.get('bad_flow') is not None and where == 'put' and flow == c['bad_flow'] and typ == 'KeyError'):
            fails.append({'what': f'the run raised {typ}: {msg}', 'signature': f'{c["kind"]}-raised-{typ}'})
        return fails
    arr_t = {p.packet_id: t for t, p in run.arrivals}
    arrived, started, departed = [], [], []
    in_service, prev_dep_t = None, None
    cnt, byt = collections.Counter(), collections.Counter()

    def check_counters(t, figs, what):
        for f in set(cnt) | set(figs):
            have = figs.get(f, (0, 0))
            if have != (cnt[f], byt[f]):
                fails.append({'what': f'at {t} ({what}) size({f}), byte_size({f}) = {have}; flow {f} has {cnt[f]} packets / {byt[f]} bytes waiting or in transmission',
                              'signature': 'sched-counters'})
                return

    for ev in run.hist:
        kind, t = ev[0], ev[1]
        if kind == 'arr':
            p = ev[2]
            arrived.append(p)
            cnt[p.flow_id] += 1; byt[p.flow_id] += p.size
            check_counters(t, ev[5], f'after put of packet {p.packet_id}')
        elif kind == 'start':
            p = ev[2]
            if in_service is not None:
                fails.append({'what': f'at {t} transmission of packet {getattr(p, "packet_id", None)} starts while packet {in_service[0].packet_id} is still in transmission',
                              'signature': 'sched-overlap'})
            if p is None:
                fails.append({'what': f'at {t} a transmission started without a packet in service', 'signature': 'sched-overlap'})
                continue
            # work conservation: the k-th transmission starts when the previous one ended if a packet was waiting then, else at the next arrival
            pending = [arr_t[q.packet_id] for q in arrived if q not in started]
            want = min(pending) if pending else None
            if prev_dep_t is not None and want is not None and prev_dep_t > want:
                want = prev_dep_t
            if want is not None and t != want:
                fails.append({'what': f'transmission of packet {p.packet_id} starts at {t}; with the previous transmission ending at {prev_dep_t} and the '
                                      f'earliest waiting arrival at {min(pending)} it must start at {want}', 'signature': 'sched-idle-with-backlog'})
            started.append(p)
            in_service = (p, t)
        elif kind == 'dep':
            p = ev[2]
            if in_service is None or in_service[0] is not p:
                fails.append({'what': f'packet {p.packet_id} left at {t} but the packet in transmission was '
                                      f'{in_service[0].packet_id if in_service else None}', 'signature': 'sched-abort'})
            else:
                want = in_service[1] + p.size * 8.0 / rate
                if bits(want) != bits(t):
                    fails.append({'what': f'packet {p.packet_id} (size {p.size}) started at {in_service[1]} and left at {t}; 8*size/rate later is {want}',
                                  'signature': 'sched-service-time'})
            departed.append(p)
            cnt[p.flow_id] -= 1; byt[p.flow_id] -= p.size
            in_service, prev_dep_t = None, t
        elif kind == 'snap':
            check_counters(t, ev[2], 'after a scheduler burst')
        elif kind == 'tick':
            if ev[2] == 'W' and ev[3] > 0:
                fails.append({'what': f'the clock advances to {t} while the scheduler is idle and {ev[3]} packets wait', 'signature': 'sched-idle-with-backlog'})
        elif kind == 'sample':
            _, _, inc, got, cur = ev
            for f in got:
                sub = (0 if inc or in_service is None or in_service[0].flow_id != f else 1)
                subb = (0 if inc or in_service is None or in_service[0].flow_id != f else in_service[0].size)
                want = (cnt[f] - sub, byt[f] - subb)
                if got[f] != want:
                    fails.append({'what': f'Monitor(service_included={inc}) sampled {got[f]} for flow {f} at {t}; the flow has {cnt[f]} packets / {byt[f]} bytes '
                                          f'waiting or in transmission, packet in service: {in_service[0].packet_id if in_service else None} -> {want}',
                                  'signature': 'sched-monitor'})
                    break
            missing = [f for f in cnt if f not in got]
            if missing:
                fails.append({'what': f'Monitor round at {t} has no sample for flows {missing}', 'signature': 'sched-monitor'})
    # per-flow FIFO and exactly once (the run ended: no event left)
    for f in {p.flow_id for p in arrived}:
        a = [p.packet_id for p in arrived if p.flow_id == f]
        d = [p.packet_id for p in departed if p.flow_id == f]
        if d != a[:len(d)]:
            fails.append({'what': f'flow {f}: arrival order {a}, departure order {d}', 'signature': 'sched-flow-fifo'})
    if sorted(p.packet_id for p in arrived) != sorted(p.packet_id for p in departed):
        fails.append({'what': f'{len(arrived)} packets accepted, {len(departed)} transmitted when the simulation ran out of events '
                              f'(missing {sorted({p.packet_id for p in arrived} - {p.packet_id for p in departed})[:10]})', 'signature': 'sched-exactly-once'})
    if run.sched.total_packets != 0 and len(arrived) == len(departed):
        fails.append({'what': f'total_packets = {run.sched.total_packets} with nothing held', 'signature': 'sched-counters'})
    return fails


def run_family(ctx, n_quick=1500, n_thorough=25000):
    rng = random.Random(f'C12-stamp-{ctx.seed}')
    if ctx.replay:
        j = json.load(open(ctx.replay))
        cases = [j['case']] if j.get('case') else [d['case'] for d in j.get('broken_correspondence', [])]
        cases = [c for c in cases if c.get('kind') in ('wfq', 'vc')]
    else:
        cases = [gen_case(rng, f's{i}') for i in range(n_quick if ctx.quick else n_thorough)]
    dis, orc, hist = [], [], collections.Counter()
    distinct, nontriv, samples, lines = set(), 0, [], 0
    for c, r, model in replay(cases):
        lines += len(r.acts)
        for l in r.acts:
            hist[l.split(' ')[0]] += 1
        hist['kind:' + c['kind']] += 1
        hist['family:' + c.get('family', '?')] += 1
        hist['map:' + ('default' if c.get('f2c_default') else 'identity' if all(f == k for f, k in c['f2c']) else 'many-to-one')] += 1
        hist['monitors'] += len(c.get('monitors') or [])
        hist['built fully positionally in the published parameter order, debug=True (stdout swallowed)'] += sum(1 for uc in [c] + list(c.get('peers') or []) if uc.get('ctor') == 'positional')
        d = first_diff(r.obs, model)
        if d:
            dis.append({'case': c, 'detail': f'line {d[0]}: impl `{d[1]}` model `{d[2]}`', 'impl': r.obs[:300], 'model': (model or [])[:300]})
        found = oracle(c, r)[:3]
        for j, (pc, pr) in enumerate(zip(c.get('peers') or [], getattr(r, 'peers', []))):
            # the other scheduler instances of a `multi` case (same Environment, overlapping class ids): every clause per instance
            hist['instances sharing an Environment'] += 1
            for f in oracle(pc, pr)[:2]:
                f['what'] = f'instance {j + 2} of {len(r.peers) + 1} schedulers in one Environment ({pc["kind"]}): ' + f['what']
                found.append(f)
        for f in found:
            f['case'] = c; f['trace'] = r.obs[:300]
            orc.append(f)
        # coincidences: an arrival in the instant of a departure, before / after it, and between out.put() and the loop's bookkeeping
        evs = [e for e in r.hist if e[0] in ('arr', 'dep', 'done')]
        dep_t = {e[1] for e in evs if e[0] == 'dep'}
        seen_dep = set()
        for i, e in enumerate(evs):
            if e[0] == 'dep':
                seen_dep.add(e[1])
            elif e[0] == 'arr' and e[1] in dep_t:
                hist['arrival at a transmission end: ' + ('after it' if e[1] in seen_dep else 'before it')] += 1
                if i > 0 and evs[i - 1][0] == 'dep' and evs[i - 1][1] == e[1]:
                    hist['arrival between out.put and the loop bookkeeping'] += 1
        nt = any(e[0] == 'arr' and e[1] in dep_t for e in evs) or any(e[0] == 'sample' for e in r.hist)
        key = json.dumps({k: v for k, v in c.items() if k != 'cid'}, sort_keys=True)
        if nt and key not in distinct:
            nontriv += 1
        distinct.add(key)
        if nt and len(samples) < 2:
            samples.append({'config': {k: v for k, v in c.items() if k != 'sources'}, 'sources': c['sources'], 'actions': r.acts[:40]})
    cov = {'evaluations': len(cases), 'distinct_nontrivial': nontriv,
           'rule': 'WFQ / VirtualClock: seeded configurations x workloads; non-trivial = distinct case with an arrival exactly at a transmission end or with Monitor samples',
           'samples': samples, 'traces_validated_against_impl': len(cases) - len(dis), 'action_lines_replayed': lines,
           'operation_histogram': dict(sorted(hist.items()))}
    return {'coverage': cov, 'disagreements': dis, 'oracle_failures': orc}


def run(ctx):
    return run_family(ctx)
