"""C05 - condition events fire exactly when their predicate first holds, with exact value."""
from harness import kprops
ASSUMPTIONS = ['condition trees of depth <= 3 over timeouts, shared events and processes; one environment (the mixed-environment refusal is checked by a direct call)']
SPEC = [(8, 'cond'), (1, 'outcome'), (1, 'plan:cond')]
def run(ctx):
    res = kprops.run_kernel(ctx, 'C05', SPEC, 2000, 60000, oracles=[kprops.oracle_time_monotone],
                            nontrivial=lambda c, lines: any(' got cv[' in l for l in lines),
                            rule='seeded random script programs; non-trivial = distinct script in which a process received a ConditionValue')
    # mixing environments is refused with ValueError (direct call on the implementation)
    from onl.sim import Environment, AllOf, AnyOf
    for cls in (AllOf, AnyOf):
        e1, e2 = Environment(), Environment()
        try:
            cls(e1, [e1.timeout(1), e2.timeout(1)])
            res['oracle_failures'].append({'what': f'{cls.__name__} accepted events of two environments', 'signature': 'cond-env-mismatch', 'case': None})
        except ValueError:
            pass
    return res
