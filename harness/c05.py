"""C05 - condition events fire exactly when their predicate first holds, with exact value."""
from harness import kprops, koracle, kbridge
from harness.kbridge import TRUSTED_EXTRA
EXTRA_MODULES = kbridge.MODULES['C05']      # this property's bridge modules only (py2lean/SCOPE.md)
prepare = kbridge.prepare_for('C05')    # regenerates only the generated files this property owns
ASSUMPTIONS = ['condition trees of depth <= 3 over timeouts, shared events and processes; one environment (the mixed-environment refusal is checked by a direct call)',
               'refused mixed-environment conditions (two Environments alive, the run continued afterwards) are judged by the direct oracle only (harness/kenvmix.py); the model has one environment']
SPEC = [(8, 'cond'), (3, 'chain'), (2, 'decided'), (1, 'outcome'), (1, 'plan:cond'), (1, 'plan:chain')]
def run(ctx):
    from harness import kenvmix
    if ctx.replay:
        import json
        j = json.load(open(ctx.replay))
        if isinstance(j.get('case'), dict) and j['case'].get('probe') == 'env-mix':
            fails, st = kenvmix.run_probe(j['case'])
            return {'coverage': {'evaluations': 1, 'distinct_nontrivial': 1, 'rule': 'replayed refused-condition probe', 'samples': [j['case']],
                                 'refused_condition_probes': st}, 'disagreements': [], 'oracle_failures': fails}
    res = kprops.run_kernel(ctx, 'C05', SPEC, 2000, 60000, attribute=kprops.stop_is_not_the_cause, oracles=[kprops.oracle_time_monotone, koracle.oracle_c05],
                            nontrivial=lambda c, lines: any(' got cv[' in l for l in lines),
                            rule='seeded random script programs; non-trivial = distinct script in which a process received a ConditionValue')
    # mixing environments is refused with ValueError (direct calls on the implementation; every shape of "mixed")
    from onl.sim import Environment, AllOf, AnyOf
    shapes = {
        'native + foreign operand': lambda e1, e2: [e1.timeout(1), e2.timeout(1)],
        'foreign + native operand': lambda e1, e2: [e2.timeout(1), e1.event()],
        'one foreign operand only': lambda e1, e2: [e2.event()],
        'all operands foreign': lambda e1, e2: [e2.timeout(1), e2.timeout(2)],
        'foreign nested condition': lambda e1, e2: [e2.timeout(1) & e2.timeout(2)],
        'foreign operand last of three': lambda e1, e2: [e1.timeout(1), e1.event(), e2.event()],
    }
    nshape = 0
    for cls in (AllOf, AnyOf):
        for name, mk in shapes.items():
            e1, e2 = Environment(), Environment()
            nshape += 1
            try:
                cls(e1, mk(e1, e2))
                res['oracle_failures'].append({'what': f'{cls.__name__} of environment 1 accepted events of another environment ({name})',
                                               'signature': 'cond-env-mismatch', 'case': {'shape': name, 'cls': cls.__name__}})
            except ValueError:
                pass
    for op in ('&', '|'):
        e1, e2 = Environment(), Environment()
        try:
            (e1.timeout(1) & e2.timeout(1)) if op == '&' else (e1.timeout(1) | e2.timeout(1))
            res['oracle_failures'].append({'what': f'`{op}` accepted events of two environments', 'signature': 'cond-env-mismatch', 'case': {'op': op}})
        except ValueError:
            pass
    res['coverage']['environment_mix_shapes_checked'] = nshape + 2
    if not ctx.replay:
        # oracle-only cases, counted separately: a refused condition leaves nothing behind (operands untouched, nothing scheduled) and
        # the run of the environment goes on as if the attempt had never been made (harness/kenvmix.py)
        fails, cov = kenvmix.probes(ctx)
        res['oracle_failures'] += fails
        res['coverage']['refused_condition_probes'] = cov
    res['coverage'].update(kbridge.coverage('C05'))
    return res
