"""Containers with non-integer amounts (oracle-only cases of C07: plain Python on the real Container, not replayed by the model).

The script cases of C07 use integer amounts (the Lean model's containers hold integers).  C07 quantifies over "arbitrary
amounts ... on containers ... of any capacity and initial level": continuous matter too.  A probe runs a seeded put / get /
cancel history of a few processes on ONE Container whose capacity, initial level and amounts are

* floats that are binary fractions on a common grid of 2**-41 below 8 (k/8, k/8 +- 2**-40, k/8 + 3 * 2**-41, ...): every sum and
  difference the container can form is exact in IEEE double, so the float level can be compared EXACTLY, or
* `fractions.Fraction`s (thirds, tenths, tenths + 10**-12, ...), exact by construction,

and in which many requests miss (or overshoot) the free space / the level by a hair.  After every call and every kernel step
the public state is judged by a direct restatement of C07 in exact rational arithmetic (`fractions.Fraction`):

* bounds: 0 <= level <= capacity;
* conservation: level == initial level + sum of granted puts - sum of granted gets;
* a request granted on the spot with no older request of its kind waiting found room (free space >= amount, level >= amount);
* whenever the clock is about to advance (and when the run is out of events) the oldest pending put does not fit and the
  oldest pending get cannot be served - exactly, not up to a tolerance.

All choices derive from random.Random(tag); a failing probe is replayed from its tag.
"""
import random
from fractions import Fraction
from onl.sim import Environment, Container
from onl.sim.core import EmptySchedule

INF = float('inf')
TINY = [2.0 ** -40, 2.0 ** -40, -2.0 ** -40, 3 * 2.0 ** -41, 2.0 ** -30, 2.0 ** -41]
FTINY = [Fraction(1, 10 ** 12), Fraction(1, 10 ** 12), -Fraction(1, 10 ** 12), Fraction(1, 10 ** 10), Fraction(1, 3 * 10 ** 15)]


def fr(x):
    return None if x == INF else Fraction(x)


class ContainerProbe:
    def __init__(self, tag):
        self.tag = tag
        self.rng = rng = random.Random(tag)
        self.exact = rng.random() < 0.3            # Fraction amounts; floats on the dyadic grid otherwise
        if self.exact:
            self.cap = rng.choice([Fraction(1), Fraction(1), Fraction(2), Fraction(3, 4), Fraction(10, 3), INF])
            grid = [Fraction(k, 10) for k in range(1, 11)] + [Fraction(1, 3), Fraction(2, 3), Fraction(1, 7)]
        else:
            self.cap = rng.choice([1.0, 1.0, 2.0, 0.75, 4.0, 1.0 + 2.0 ** -40, INF])
            grid = [k / 8 for k in range(1, 9)] + [1.5, 0.375 + 2.0 ** -20]
        self.grid = grid
        top = self.cap if self.cap != INF else grid[-1] * 2
        self.init = rng.choice([type(top)(0), top, top / 2, rng.choice([g for g in grid if g <= top] or [top])])
        self.env = Environment()
        self.box = Container(self.env, self.cap, self.init)
        self.puts, self.gets = [], []       # (request, amount, tag)
        self.trace = []
        self.fails = []
        self.halvings = 0
        self.stats = {'calls': 0, 'granted': 0, 'near_misses': 0, 'steps': 0}

    # ---- amounts --------------------------------------------------------------------------------------
    def amount(self, isput):
        """mostly: exactly what fits / what is there, or that plus or minus a hair; otherwise a grid value (plus a hair)"""
        rng, box = self.rng, self.box
        tiny = rng.choice(FTINY if self.exact else TINY)
        room = (self.cap - box.level) if isput else box.level
        x = rng.random()
        if x < 0.45 and room != INF and room > 0:
            a = room + (tiny if rng.random() < 0.7 else 0)
            if rng.random() < 0.3 and self.halvings < 6:      # a bounded number of halvings keeps every float sum exact (53 bits)
                self.halvings += 1
                a = room / 2 + tiny
        else:
            a = rng.choice(self.grid) + (tiny if rng.random() < 0.5 else 0)
        if a <= 0:
            a = rng.choice(self.grid)
        return a

    # ---- judging ----------------------------------------------------------------------------------------
    def fail(self, sig, what):
        if len(self.fails) < 3:
            self.fails.append({'what': f'Container(capacity={self.cap!r}, init={self.init!r}) at {self.env.now!r}: {what}', 'signature': sig})

    def ledger(self):
        p = sum((Fraction(a) for r, a, _ in self.puts if r.triggered and r.ok), Fraction(0))
        g = sum((Fraction(a) for r, a, _ in self.gets if r.triggered and r.ok), Fraction(0))
        return p, g

    def look(self, when):
        box = self.box
        lv = Fraction(box.level)
        if lv < 0 or (self.cap != INF and lv > Fraction(self.cap)):
            self.fail('container-bounds-fractional', f'{when}: level {box.level!r} is outside [0, capacity]')
        p, g = self.ledger()
        want = Fraction(self.init) + p - g
        if lv != want:
            self.fail('container-conservation-fractional',
                      f'{when}: level is {box.level!r} but initial {self.init!r} + granted puts {float(p)!r} - granted gets {float(g)!r} = '
                      f'{float(want)!r} (exactly: level - expected = {lv - want})')

    def heads(self, when):
        box = self.box
        lv = Fraction(box.level)
        if box.put_queue:
            a = Fraction(box.put_queue[0].amount)
            if self.cap == INF or Fraction(self.cap) - lv >= a:
                self.fail('strand-put-fractional', f'{when}: the oldest pending put({box.put_queue[0].amount!r}) fits (level {box.level!r}) and is still waiting')
        if box.get_queue:
            a = Fraction(box.get_queue[0].amount)
            if lv >= a:
                self.fail('strand-get-fractional', f'{when}: the oldest pending get({box.get_queue[0].amount!r}) can be served (level {box.level!r}) and is still waiting')

    # ---- the program ------------------------------------------------------------------------------------
    def request(self, who, isput):
        box, env = self.box, self.env
        a = self.amount(isput)
        lv0 = Fraction(box.level)
        queue = box.put_queue if isput else box.get_queue
        older = len(queue)
        room = None if (isput and self.cap == INF) else ((Fraction(self.cap) - lv0) if isput else lv0)
        req = box.put(a) if isput else box.get(a)
        (self.puts if isput else self.gets).append((req, a, who))
        self.stats['calls'] += 1
        fits = room is None or room >= Fraction(a)
        if room is not None and abs(room - Fraction(a)) <= Fraction(1, 10 ** 9) and room != Fraction(a):
            self.stats['near_misses'] += 1
        self.trace.append(f'{env.now!r}: process {who} {"put" if isput else "get"}({a!r}) at level {float(lv0)!r} -> '
                          f'{"granted" if req.triggered else "waits"} (level {box.level!r}, {older} older waiting)')
        if req.triggered and older == 0 and not fits:
            self.fail('container-granted-without-room',
                      f'{"put" if isput else "get"}({a!r}) by process {who} was granted on the spot although '
                      f'{"the free space" if isput else "the level"} was {float(room)!r}, short by {float(Fraction(a) - room)!r}')
        self.look(f'after {"put" if isput else "get"}({a!r}) by process {who}')
        return req

    def proc(self, who):
        env, rng = self.env, self.rng
        for _ in range(rng.randint(1, 6)):
            if rng.random() < 0.5:
                yield env.timeout(rng.choice([0, 0, 0.5, 1, 1, 2]))
            req = self.request(who, rng.random() < 0.5)
            pat = rng.random()
            if pat < 0.5:
                yield req
            elif pat < 0.8:
                yield req | env.timeout(rng.choice([0, 0.5, 1, 2]))
                if not req.triggered:
                    req.cancel()
                    self.trace.append(f'{env.now!r}: process {who} cancels its request')
                    self.look(f'after a cancel by process {who}')
            elif pat < 0.9:
                req.cancel()
                self.look(f'after a cancel by process {who}')
            # else: fire and forget

    def run(self):
        env = self.env
        for i in range(self.rng.randint(2, 5)):
            env.process(self.proc(i + 1))
        for _ in range(3000):
            if env.peek() > env.now:
                self.heads(f'the clock is about to advance to {env.peek()!r}')
            try:
                env.step()
            except EmptySchedule:
                break
            except BaseException as x:
                self.fail('container-raised', f'step() raised {x!r}')
                break
            self.stats['steps'] += 1
            self.look('after a kernel step')
            if self.fails:
                break
        self.stats['granted'] = sum(1 for r, _, _ in self.puts + self.gets if r.triggered)
        return self.fails


def run_probe(case):
    p = ContainerProbe(case['tag'])
    fails = p.run()
    for f in fails:
        f['case'] = case
        f['trace'] = p.trace[-60:]
    return fails, dict(p.stats, exact=p.exact)


def probes(ctx, prop='C07'):
    """the probes of one check run: (failures, coverage)"""
    n = 1000 if ctx.quick else 12000
    fails, tot = [], {'probes': n, 'fraction_probes': 0, 'calls': 0, 'granted': 0, 'near_misses': 0, 'steps': 0}
    for k in range(n):
        f, st = run_probe({'probe': 'container-amounts', 'tag': f'{prop}-amounts-{ctx.seed}-{k}'})
        fails += f
        tot['fraction_probes'] += int(st['exact'])
        for key in ('calls', 'granted', 'near_misses', 'steps'):
            tot[key] += st[key]
    tot['rule'] = ('seeded put/get/cancel histories on one Container with dyadic float or Fraction capacity, level and amounts; near miss = a '
                   'request whose amount differs from the free space / the level by at most 1e-9 without being equal')
    return fails[:6], tot
