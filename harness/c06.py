"""C06 - resources never exceed capacity, grant in queue order, never idle a slot."""
import re
from harness import kprops, kbridge
from harness.kbridge import TRUSTED_EXTRA
EXTRA_MODULES = kbridge.MODULES['C06']      # this property's bridge modules only (py2lean/SCOPE.md)
prepare = kbridge.prepare_for('C06')    # regenerates only the generated files this property owns
from vlib.util import unbits
ASSUMPTIONS = ['each process holds or awaits at most one request per resource at a time; holders release before they terminate',
               'requests are created inside processes (PreemptiveResource needs the requesting process)']
SPEC = [(9, 'res'), (1, 'plan:res')]

def oracle_capacity_and_idle(case, lines, runner=None):
    """capacity never exceeded; when the clock advances nobody waits beside a free slot (from the per-step snapshots)"""
    fails = []
    caps = [cap for (k, cap, _) in case.res]
    prev = None
    for l in lines:
        if not l.startswith('S '):
            continue
        body, t = l[2:].rsplit(' @', 1)
        parts = body.split(' | ')
        snap = []
        for p, cap in zip(parts, caps):
            m = re.match(r'u\[(.*?)\] q\[(.*?)\]', p)
            if not m:
                snap.append(None); continue
            users = [x for x in m.group(1).split(',') if x]
            queue = [x for x in m.group(2).split(',') if x]
            snap.append((users, queue))
            if cap is not None and len(users) > cap:
                fails.append({'what': f'{len(users)} users on a resource of capacity {cap}', 'signature': 'res-capacity'})
        if prev is not None and prev[1] != t:
            for (uq, cap) in zip(prev[0], caps):
                if uq and cap is not None and len(uq[0]) < cap and uq[1]:
                    fails.append({'what': f'the clock advanced from {unbits(int(prev[1]))} while request(s) {uq[1]} waited beside a free slot '
                                          f'({len(uq[0])}/{cap} used)', 'signature': 'res-idle-slot'})
        prev = (snap, t)
    return fails[:3]

def oracle_grant_order(case, lines, runner=None):
    """a request is never granted while an earlier-ranked request of the same resource keeps waiting"""
    fails = []
    info = {n[1]: n for n in runner.notes if n[0] == 'req'}
    def rank(lab, kind):
        n = info.get(lab)
        if n is None:
            return None
        return (lab,) if kind == 'resource' else (n[3], n[4], not n[5], lab)
    prev = None
    for l in lines:
        if not l.startswith('S '):
            continue
        body, t = l[2:].rsplit(' @', 1)
        snap = []
        for p in body.split(' | '):
            m = re.match(r'u\[(.*?)\] q\[(.*?)\]', p)
            snap.append(None if not m else ([int(x) for x in m.group(1).split(',') if x], [int(x) for x in m.group(2).split(',') if x]))
        if prev is not None:
            for ri, (a, b) in enumerate(zip(prev, snap)):
                if not a or not b:
                    continue
                kind = case.res[ri][0]
                granted = [x for x in b[0] if x not in a[0] and x in a[1]]
                still = [x for x in b[1] if x in a[1]]
                for g in granted:
                    for w in still:
                        rg, rw = rank(g, kind), rank(w, kind)
                        if rg is not None and rw is not None and rw < rg:
                            fails.append({'what': f'request {g} (rank {rg}) was granted while request {w} (rank {rw}) of the same {kind} kept waiting',
                                          'signature': 'res-grant-order'})
        prev = snap
    return fails[:3]

def oracle_release(case, lines, runner=None):
    """after release() / leaving the with-block a request neither holds a slot nor waits for one"""
    for n in runner.notes:
        if n[0] == 'leaked':
            return [{'what': f'request {n[1]} still occupies or awaits resource {n[2]} right after it was released / its with-block was left at {n[3]}{n[4] if len(n) > 4 else ""}',
                     'signature': 'res-slot-leaked'}]
    return []

def oracle_preemption(case, lines, runner=None):
    """a request call on a PreemptiveResource evicts exactly the worst-ranked user, and only if it ranks strictly worse than
    the request at the head of the queue (computed from users/queue/key/preempt/capacity as they were before the call)"""
    for n in runner.notes:
        if n[0] == 'evict' and sorted(n[3]) != sorted(n[4]):
            _, ri, now, want, got, users, queue = n
            return [{'what': f'request call at {now} on preemptive resource {ri} with users {users} and waiting requests {queue} evicted '
                             f'{got}; by the rule (worst-ranked user, only if strictly worse than the request being granted) it evicts {want}',
                     'signature': 'res-preempt-victim'}]
    return []

def oracle_release_completes(case, lines, runner=None):
    """releasing (also twice, also a non-user) is harmless: the Release itself always completes"""
    if any(l.startswith('X ') for l in lines):
        return []
    for e in runner.keep:
        if type(e).__name__ == 'Release' and not e.triggered:
            return [{'what': f'release event {runner.lab(e)} (of request {runner.lab(e.request)}) never completed: a process waiting for it '
                             f'would hang', 'signature': 'res-release-never-completes'}]
    return []

def oracle_preempted_cause(case, lines, runner=None):
    """restates "the evicted process receives Interrupt(Preempted(by, usage_since, resource)) and the slot goes to the preemptor":
    the k-th Preempted cause a process receives belongs to the k-th eviction of one of its requests (evictions are read off the
    public `users` around every call and kernel step, Runner.note_users); `resource` is that resource, `usage_since` the instant
    at which the evicted request had entered `users`, and `by` the process that issued the request which took the slot - a
    preempting, strictly better-ranked request that entered `users` in the same look (whoever happened to be running when the
    queue was re-scanned is irrelevant).  Stands down when no such request is seen, and on split plans."""
    if runner is None or case.mode != 'step':
        return []
    ev_of, got_of = {}, {}
    for n in runner.notes:
        if n[0] == 'evicted' and n[4] is not None:
            ev_of.setdefault(id(n[4][0]), []).append(n)
        elif n[0] == 'preempted':
            got_of.setdefault(id(n[2]), []).append(n)
    for pid, got in got_of.items():
        for g, e in zip(got, ev_of.get(pid, [])):
            _, name, me, by, since, resource, now = g
            _, ri, t_ev, v, owner, takers, ctx, granted, users_before, added = e
            where = (f'request {v} of process {name} was evicted from preemptive resource {ri} (capacity {case.res[ri][1]}, users {users_before}) at '
                     f'{t_ev} during {"a kernel step" if ctx[0] == "step" else "the " + ctx[0] + " call for request " + str(ctx[1])}')
            if resource is not runner.res[ri]:
                return [{'what': f'{where}; the Preempted cause it received names another resource', 'signature': 'res-preempted-resource'}]
            if granted is not None and since != granted:
                return [{'what': f'{where}; it had been granted at {granted} but the Preempted cause it received says usage_since={since!r}',
                         'signature': 'res-preempted-usage-since'}]
            if takers and not any(by is o[0] for _, o in takers if o is not None):
                who = runner.pnames.get(id(by), None) if by is not None else None
                return [{'what': f'{where}; the slot went to request {", ".join(str(a) for a, _ in takers)} of process '
                                 f'{", ".join(str(o[1]) for _, o in takers if o is not None)}, but the Preempted cause the victim received says '
                                 f'by={"None" if by is None else "process " + str(who)}', 'signature': 'res-preempted-by'}]
    return []

def run(ctx):
    res = kprops.run_kernel(ctx, 'C06', SPEC, 1500, 40000, attribute=kprops.stop_is_not_the_cause, oracles=[oracle_capacity_and_idle, oracle_grant_order, oracle_release, oracle_preemption, oracle_release_completes, oracle_preempted_cause],
                             nontrivial=lambda c, lines: any('q[' in l and 'q[]' not in l for l in lines),
                             rule='seeded request/hold/release/cancel/with-exit histories of 2-8 processes on 1-2 resources of the three classes; non-trivial = distinct history in which some request had to queue')
    res['coverage'].update(kbridge.coverage('C06'))
    return res
