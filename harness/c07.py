"""C07 - containers and stores are bounded, conservative, ordered, never strand a request."""
import re
from harness import kprops, kbridge
from harness.kbridge import TRUSTED_EXTRA
EXTRA_MODULES = kbridge.MODULES['C07']      # this property's bridge modules only (py2lean/SCOPE.md)
prepare = kbridge.prepare_for('C07')    # regenerates only the generated files this property owns
from vlib.util import unbits
ASSUMPTIONS = ['integer amounts and items in the cases replayed by the model; PriorityStore items are plain integers (ties are indistinguishable)',
               'containers with float (binary fractions, exact in IEEE double) and Fraction amounts are judged by the direct oracle only (harness/kamount.py)',
               'filters are drawn from a family of five predicates in the cases replayed by the model; filters that raise (once, out of the get() call that '
               'hands them over; the caller catches the exception and goes on) are judged by the direct oracle only (harness/kfilter.py)']
SPEC = [(9, 'store'), (1, 'plan:store')]

def oracle_bounds(case, lines, runner=None):
    fails = []
    for l in lines:
        if not l.startswith('S '):
            continue
        body, t = l[2:].rsplit(' @', 1)
        for p, (k, cap, ini) in zip(body.split(' | '), case.res):
            m = re.match(r'lv(-?\d+) ', p)
            if m:
                lv = int(m.group(1))
                if lv < 0 or (cap is not None and lv > cap):
                    fails.append({'what': f'container level {lv} outside [0, {cap}]', 'signature': 'container-bounds'})
            m = re.match(r'it\[(.*?)\] ', p)
            if m and cap is not None:
                n = len([x for x in m.group(1).split(',') if x.strip()])
                if n > cap:
                    fails.append({'what': f'store holds {n} items, capacity {cap}', 'signature': 'store-bounds'})
    return fails[:3]

def oracle_heads(case, lines, runner=None):
    """whenever the clock is about to advance, the oldest pending put and get cannot be satisfied"""
    fails = []
    hs = [n for n in runner.notes if n[0] == 'heads']
    for a, b in zip(hs, hs[1:]):
        if b[1] != a[1]:
            for (k, cap, _), inf in zip(case.res, a[2]):
                if inf and inf[0]:
                    fails.append({'what': f'the clock advanced from {a[1]} to {b[1]} although the oldest pending put on the {k} (capacity {cap}) could be granted', 'signature': 'strand-put'})
                if inf and inf[1]:
                    fails.append({'what': f'the clock advanced from {a[1]} to {b[1]} although a pending get on the {k} could be served', 'signature': 'strand-get'})
    if hs and not any(l.startswith('X ') for l in lines):
        for (k, cap, _), inf in zip(case.res, hs[-1][2]):
            if inf and (inf[0] or inf[1]):
                fails.append({'what': f'the simulation ran out of events with a satisfiable request pending on the {k}', 'signature': 'strand-final'})
    return fails[:3]

def oracle_handout(case, lines, runner=None):
    """a get served on the spot receives the oldest item (Store), a smallest item (PriorityStore), the first match (FilterStore)"""
    from harness.kscript import FILTERS
    for n in runner.notes:
        if n[0] != 'got-now':
            continue
        _, kind, before, v, f, now = n
        if kind == 'store':
            want = before[0] if before else None
        elif kind == 'pstore':
            want = min(before) if before else None
        else:
            want = next((x for x in before if FILTERS[f](x)), None)
        if want is None or v != want:
            return [{'what': f'a get on the {kind} holding {sorted(before) if kind == "pstore" else before} was handed {v!r} at {now}; '
                             f'the item due is {want!r}', 'signature': f'{kind}-handout-order'}]
    return []

def oracle_conservation(case, lines, runner=None):
    """container level = initial + granted puts - granted gets; every accepted store item is handed out at most once and
    what is neither held nor handed out was never accepted (from the final public state of the requests the program created)"""
    if runner is None or any(l.startswith('X ') for l in lines):
        return []
    from onl.sim.resources.container import ContainerPut, ContainerGet
    from onl.sim.resources.store import StorePut, StoreGet
    import collections
    for ri, ((k, cap, ini), r) in enumerate(zip(case.res, runner.res)):
        mine = [e for e in runner.keep if getattr(e, 'resource', None) is r]
        if k == 'container':
            puts = sum(e.amount for e in mine if isinstance(e, ContainerPut) and e.triggered and e.ok)
            gets = sum(e.amount for e in mine if isinstance(e, ContainerGet) and e.triggered and e.ok)
            if r.level != ini + puts - gets:
                return [{'what': f'container level is {r.level}; initial {ini} + granted puts {puts} - granted gets {gets} = {ini + puts - gets}',
                         'signature': 'container-conservation'}]
        elif k in ('store', 'pstore', 'fstore'):
            acc = collections.Counter(e.item for e in mine if isinstance(e, StorePut) and e.triggered and e.ok)
            out = collections.Counter(e.value for e in mine if isinstance(e, StoreGet) and e.triggered and e.ok)
            held = collections.Counter(r.items)
            if acc != out + held:
                return [{'what': f'{k}: accepted items {sorted(acc.elements())} but handed out {sorted(out.elements())} and still holding '
                                 f'{sorted(held.elements())} (an item was lost, duplicated or invented)', 'signature': 'store-exactly-once'}]
    return []

def oracle_fcfs(case, lines, runner=None):
    """restates "put requests and get requests are each served first come first served (only FilterStore lets a later getter
    overtake one whose filter matches nothing)": no request is granted while an older request of the same kind on the same
    container/store is still waiting (observed right after every put/get call and after every kernel step)"""
    for n in (runner.notes if runner is not None else []):
        if n[0] == 'fcfs':
            _, k, ri, kind, x, y, what, now, queue = n
            return [{'what': f'{kind} request {x} ({what}) on the {k} (resource {ri}, capacity {case.res[ri][1]}) was granted at {now} while the '
                             f'older {kind} request {y} was still waiting (queue {queue}): {kind}s are served first come first served',
                     'signature': f'{"store" if k != "container" else "container"}-{kind}-fcfs'}]
    return []

def run(ctx):
    from harness import kamount, kfilter
    if ctx.replay:
        import json
        j = json.load(open(ctx.replay))
        if isinstance(j.get('case'), dict) and j['case'].get('probe') == 'container-amounts':
            fails, st = kamount.run_probe(j['case'])
            return {'coverage': {'evaluations': 1, 'distinct_nontrivial': 1, 'rule': 'replayed fractional-amount container probe', 'samples': [j['case']],
                                 'fractional_amount_probes': st}, 'disagreements': [], 'oracle_failures': fails}
        if isinstance(j.get('case'), dict) and j['case'].get('probe') == 'raising-filter':
            fails, st = kfilter.run_probe(j['case'])
            return {'coverage': {'evaluations': 1, 'distinct_nontrivial': 1, 'rule': 'replayed raising-filter FilterStore probe', 'samples': [j['case']],
                                 'raising_filter_probes': st}, 'disagreements': [], 'oracle_failures': fails}
    res = kprops.run_kernel(ctx, 'C07', SPEC, 1500, 40000, attribute=kprops.stop_is_not_the_cause, oracles=[oracle_bounds, oracle_heads, oracle_handout, oracle_conservation, oracle_fcfs],
                             nontrivial=lambda c, lines: any(('pq' in l and not re.search(r'pq0 gq0', l)) for l in lines if l.startswith('S ')),
                             rule='seeded put/get/cancel histories of 2-8 processes on containers and the three stores; non-trivial = distinct history in which some request had to queue')
    res['coverage'].update(kbridge.coverage('C07'))
    if not ctx.replay:
        # oracle-only cases, counted separately: containers with float (binary-fraction) and Fraction amounts, judged exactly
        fails, cov = kamount.probes(ctx)
        res['oracle_failures'] += fails
        res['coverage']['fractional_amount_probes'] = cov
        # oracle-only cases, counted separately: FilterStore histories in which a filter raises once out of get() and its caller goes on
        fails, cov = kfilter.probes(ctx)
        res['oracle_failures'] += fails
        res['coverage']['raising_filter_probes'] = cov
    return res
