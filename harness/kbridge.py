"""Shared by the kernel checks C01, C04-C07: the kernel's decision logic is regenerated from the source under $ONL_REPO
(`py2lean/kernel.py` -> `lean/OnlVerif/Generated/Kernel{Res,Cond,Sched}.lean`) and the bridge theorems of
`lean/OnlVerif/Props/KernelGen.lean` (generated definition = function of the hand-written kernel model) are built and audited
with the property's own theorems.  A translator failure (`Unsupported`: the source left the translatable subset or a
structural landmark changed) or a bridge theorem that no longer compiles is a broken obligation."""

EXTRA_MODULES = ('OnlVerif.Props.KernelGen',)
STEMS = ('KernelRes', 'KernelCond', 'KernelSched')

TRUSTED_EXTRA = [
    'py2lean/kernel.py on top of py2lean/elem.py (typed AST-subset translator; hand-written object schemas of the kernel classes, declared '
    'effect patterns = the constructors of `KEff`, structural landmarks and shape checks) and the hand-written encoding between generated '
    'object views and model state (`lean/OnlVerif/Lemmas/GenKernelDefs.lean`: `runEff`, `buildEvent`, `applyTrig`, `toEntry`); the bridge '
    'theorems `KernelGen.*_generated_eq_model` tie the translator\'s output to the kernel model',
    'Python semantics the bridge takes as given: lexicographic tuple comparison (`Py.keyLt`, `Py.entryLt`), `sorted` / `list.sort` stability, '
    '`heapq`, `list.remove` / `pop`, `float("inf")` arithmetic (`ExtInt`)',
]

BRIDGES = {
    'C01': ['KernelGen.schedule_generated_eq_model', 'KernelGen.timeout_generated_eq_model', 'KernelGen.succeed_fail_generated_eq_model',
            'KernelGen.process_end_generated_eq_model', 'KernelGen.process_start_generated_eq_model', 'KernelGen.interrupt_generated_eq_model',
            'KernelGen.run_until_generated_eq_model', 'KernelGen.step_crash_generated_eq_model'],
    'C04': ['KernelGen.interrupt_generated_eq_model', 'KernelGen.process_start_generated_eq_model', 'KernelGen.schedule_generated_eq_model',
            'KernelGen.process_end_generated_eq_model'],
    'C05': ['KernelGen.evaluate_generated_eq_model', 'KernelGen.cond_check_generated_eq_model', 'KernelGen.step_crash_generated_eq_model'],
    'C06': ['KernelGen.resource_do_put_generated_eq_model', 'KernelGen.resource_guard_generated_eq_model', 'KernelGen.put_guards_generated_eq_model',
            'KernelGen.resource_do_get_generated_eq_model', 'KernelGen.priority_key_generated_eq_model',
            'KernelGen.preemptive_do_put_generated_eq_model', 'KernelGen.cancel_generated_eq_model'],
    'C07': ['KernelGen.put_guards_generated_eq_model', 'KernelGen.container_do_put_generated_eq_model', 'KernelGen.container_do_get_generated_eq_model',
            'KernelGen.container_amount_guard_generated_eq_model', 'KernelGen.store_generated_eq_model',
            'KernelGen.priority_store_generated_eq_model', 'KernelGen.filter_store_generated_eq_model', 'KernelGen.cancel_generated_eq_model'],
}

FILES = {'C01': ('KernelSched',), 'C04': ('KernelSched',), 'C05': ('KernelCond', 'KernelSched'), 'C06': ('KernelRes',), 'C07': ('KernelRes',)}

HAND_MODELLED = {
    'C01': ['Environment.step (pop, callback loop, deferred StopSimulation: shape checked structurally; only the crash test is translated)',
            'Environment.run (loop and exits: shape checked structurally; the refusal test and the sentinel entry are translated)',
            'Process._resume (generator send/throw loop, registration on the yielded event; only its two trigger sites are translated)',
            'heapq (the agenda is a list popped at its minimum; the tuple order is `Py.entryLt`)', 'exception messages'],
    'C04': ['Interruption._interrupt (ignore a dead victim, detach from the target, resume)', 'Process._resume (generator send/throw loop)',
            'Process.interrupt / Process.__init__ (shape checked structurally)'],
    'C05': ['Condition.__init__ (empty-operand shortcut, environment-mismatch test, registration loop: shape checked structurally)',
            'Condition._build_value / _populate_value / _remove_check_callbacks, ConditionValue',
            'AllOf / AnyOf / `&` / `|` (which predicate they pass: checked structurally)'],
    'C06': ['BaseResource._trigger_put/_trigger_get (scan loop: shape checked structurally against scanPut/scanGet)',
            'Put.__init__ / Get.__init__ (create, enqueue, subscribe, scan: shape checked structurally against mkPut/mkGet)',
            '`sorted(self.users, key=…)[-1]` (the victim: `worstUser`) and SortedQueue.append (`insertSorted`): list.sort stability',
            'Preempted, Request.__exit__, Resource.__init__ (capacity > 0)'],
    'C07': ['BaseResource._trigger_put/_trigger_get (scan loop: shape checked structurally against scanPut/scanGet)',
            'Put.__init__ / Get.__init__ (shape checked structurally)', 'heappush / heappop (a bag popped at its minimum)',
            'the first-match loop of FilterStore._do_get (shape checked structurally; `find?` in the model)', 'the filter callables',
            'Container.__init__ / Store.__init__ (capacity > 0, 0 <= init <= capacity)'],
}

_PREP = {}


def prepare(ctx):
    """regenerate the three kernel files from the source under $ONL_REPO (atomically, only when changed)"""
    from py2lean import translate, kernel
    _PREP.clear()
    _PREP['rewritten'] = translate.regenerate_all(only=kernel.STEMS)
    _PREP['diff_vs_pinned'] = [l for s in STEMS for l in translate.diff_vs_pinned(s)][:60]
    _PREP['translated'] = {s: kernel.TRANSLATED[s] for s in STEMS}
    _PREP['structural'] = {s: list(kernel.STRUCTURAL.get(s, [])) for s in STEMS}


def coverage(prop):
    """the evidence entries of a kernel check"""
    files = FILES[prop]
    tr = _PREP.get('translated', {})
    st = _PREP.get('structural', {})
    return {'translated': [x for f in files for x in tr.get(f, [])],
            'structural_checks': [x for f in files for x in st.get(f, [])],
            'generated_files_rewritten': _PREP.get('rewritten', []),
            'generated_diff_vs_pinned': _PREP.get('diff_vs_pinned', []),
            'bridge_theorems': BRIDGES[prop], 'hand_modelled': HAND_MODELLED[prop]}
