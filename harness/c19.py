"""C19 - a Timer fires exactly at its expiry, and stop/restart always take effect.

Correspondence: scripted stop/restart histories are executed on the REAL `onl.utils.timer.Timer`
(the harness drives `env.step()` itself); every atomic burst is turned into an action label of the
Timer LTS (lean/OnlVerif/Util/Timer.lean) from public state only (`timer.proc`, `proc.is_alive`,
`proc.target`, `event.processed`, callback taps, the calls the scripted actors make) and replayed by
the compiled model, which must enable every label and print the same outputs and public snapshot.

Oracle (independent of the model): the expected firing instants are recomputed from the call history by
the rules of the property and compared with the recorded callback invocations.
"""
from vlib.util import guarded_leg
import collections, json, random

from onl.sim import Environment
from onl.sim.core import EmptySchedule
from onl.sim.events import Initialize, Timeout
from onl.utils.timer import Timer
from vlib.util import bits, unbits, run_driver, split_cases, quiet

EXTRA_MODULES = ('OnlVerif.Props.C19K',)
BRIDGES = ['C19.timer_init_generated_eq_model', 'C19.timer_run_generated_eq_model', 'C19.timer_stop_generated_eq_model',
           'C19.timer_restart_generated_eq_model']
_PREP = {}


def prepare(ctx):
    """regenerate lean/OnlVerif/Generated/Timer19.lean from the source under $ONL_REPO (a translator failure or a bridge
    theorem that no longer compiles is a broken obligation)"""
    from py2lean import translate, more
    _PREP['translated'] = more.TRANSLATED['Timer19']
    _PREP['rewritten'] = translate.regenerate_all(only=('Timer19',))
    _PREP['diff_vs_pinned'] = translate.diff_vs_pinned('Timer19')


ASSUMPTIONS = [
    'timeouts (constructor and restart) are positive finite numbers; other constructor values are refused with ValueError',
    'user callbacks do not raise; they may call stop()/restart(tau) on their own timer',
    'restart() on a one-shot timer that has already fired is constrained only by "does not raise" (the code does not re-arm)',
    'after stop(), restart() re-arms the process but the callback stays suppressed ("never fires again")',
    'time is exact rational in the theorems; the executable model runs at IEEE double and is compared bit for bit',
    'URGENT events (Initialize, Interruption) precede every NORMAL event of their instant (C01 theorems of the kernel model)',
    'that the Timer generator running on the kernel MODEL refines the LTS is a theorem (Props/C19K.lean: TimerOnK.body, one controller process, '
    'scalar argument); that the kernel model and the real kernel agree on that program is checked by the timerk leg; for the other '
    'shapes of use (several actors, several calls per burst, t0 > 0) the link to the LTS is this replay',
]

DY = [0.25, 0.5, 0.5, 0.75, 1, 1, 1.5, 2, 3]
GRID = [0, 0.25, 0.25, 0.5, 0.5, 0.75, 1, 1, 1.5, 2]
STEP_BUDGET = 1500


# ------------------------------------------------------------------------------------------------
# case generation

def rto_like(rng):
    """a retransmission timeout as a TCP sender computes it: srtt + 4*rttvar after a few RTT samples (gains 1/8, 1/4), sometimes backed off"""
    srtt, dev = rng.uniform(0.01, 1.0), rng.uniform(0.0, 0.3)
    for _ in range(rng.randint(1, 4)):
        err = rng.uniform(0.005, 1.5) - srtt
        srtt += err / 8
        dev += (abs(err) - dev) / 4
    return (srtt + 4 * dev) * rng.choice([1, 1, 2, 4])


def gen_timeout(rng):
    x = rng.random()
    if x < 0.62:
        return rng.choice(DY)
    if x < 0.7:
        return rng.randint(1, 3)
    if x < 0.78:
        return round(rng.uniform(0.05, 3), rng.choice([1, 2]))
    if x < 0.86:
        return rng.uniform(0.001, 3)
    # values that lie on no decimal grid: thirds, sevenths, float noise (0.1 + 0.2), computed RTOs (sub-nanosecond timeouts: gen_case) -
    # "exactly once at t0 + timeout" is an equality of floats, whatever the value
    if x < 0.93:
        return rng.choice([1 / 3, 2 / 3, 1 / 7, 0.1 + 0.2, 0.1 * 3, 1 / 3 + 1 / 7, 1.1 - 1.0, 2.675])
    return rto_like(rng)


def gen_delay(rng):
    x = rng.random()
    if x < 0.8:
        return rng.choice(GRID)
    if x < 0.9:
        return round(rng.uniform(0, 3), 1)
    return rng.uniform(0, 3)


def gen_op(rng):
    return ['stop'] if rng.random() < 0.25 else ['restart', gen_timeout(rng)]


def gen_args(rng):
    x = rng.random()
    if x < 0.25:
        return None
    if x < 0.6:
        return rng.randint(-5, 99)
    return [rng.randint(-5, 99) for _ in range(rng.choice([0, 1, 1, 2, 3]))]


def gen_case(rng, cid):
    x = rng.random()
    t0 = 0 if x < 0.6 else (rng.choice([0.5, 1, 2, 2.5]) if x < 0.8 else rng.choice([0.1, 1 / 3, 0.7, 0.1 + 0.2]) if x < 0.87 else rng.uniform(0, 5))
    tmo = gen_timeout(rng)
    if rng.random() < 0.02:
        tmo = rng.choice([0, -1, -0.5, 0.0])       # refused by the constructor
    c = {'cid': str(cid), 't0': t0, 'timeout': tmo, 'auto': rng.random() < 0.5,
         'args': gen_args(rng), 'actors': [], 'cb': [], 'direct': [], 'horizon': 0}
    if not c['auto'] and tmo > 0 and rng.random() < 0.04:
        c['timeout'] = rng.choice([1e-10, 3e-10, 2.0 ** -40, 4.9e-10])      # a one-shot timer far below a nanosecond (positive: accepted)
    budget = rng.randint(0, 10)           # stop/restart calls of this history
    if rng.random() < 0.12 and budget:
        k = rng.randint(1, min(3, budget))
        c['direct'] = [gen_op(rng) for _ in range(k)]
        budget -= k
    ncb = rng.choice([0, 0, 1, 2, 3])
    for _ in range(ncb):
        if budget <= 0 or rng.random() < 0.35:
            c['cb'].append([])
        else:
            k = 1 if rng.random() < 0.8 else 2
            c['cb'].append([gen_op(rng) if rng.random() < 0.5 else ['restart', gen_timeout(rng)] for _ in range(k)])
            budget -= k
    nact = rng.choice([0, 1, 1, 2, 2, 3])
    for _ in range(nact):
        if budget <= 0:
            break
        a = {'pos': rng.choice(['before', 'after']), 'script': []}
        for _ in range(rng.randint(1, 4)):
            if budget <= 0:
                break
            k = 1 if rng.random() < 0.75 else rng.randint(2, 3)
            k = min(k, budget)
            d = gen_delay(rng)
            if rng.random() < 0.3:
                d = c['timeout']              # aim at an expiry instant
            a['script'].append([d, [gen_op(rng) for _ in range(k)]])
            budget -= k
        c['actors'].append(a)
    span = sum(sum(d for d, _ in a['script']) for a in c['actors']) + 4 * abs(c['timeout']) + 6
    c['horizon'] = c['t0'] + min(span, 24)
    return c


ASSUMPTIONS.append('groups: in about 40% of the histories one to three further Timers (other timeouts / arguments / auto_restart, own stop/restart '
                   'histories; created at the same instant or later, before or after the first; some aimed at the first one\'s expiry instants; some '
                   'with equal arguments) live in the same Environment, in half of the groups all with ONE callback function (a module-level '
                   'function, told apart by a keyword argument) as a TCP sender uses one bound method for all its timers; callbacks may stop / restart '
                   'ANOTHER timer of the group. Every timer is replayed through the model as a history of its own and judged by the oracle on its own calls')


def gen_group(rng, cid):
    """the timer under test and, in about 40% of the cases, one to three PEER timers alive in the same Environment.  "A Timer
    created at t0 invokes its callback with the given arguments exactly once at t0 + timeout ... unless IT is stopped or
    restarted first": what is done to, or fires on, another Timer - with another or the same callback, the same or other
    arguments, the same or another expiry instant - is no stop/restart of this one."""
    c = gen_case(rng, cid)
    if c['timeout'] <= 0 or rng.random() < 0.6:
        return c
    c['peers'] = []
    n = rng.choice([1, 1, 2, 3])
    for j in range(n):
        p = gen_case(rng, f'{cid}.p{j + 1}')
        while p['timeout'] <= 0:                                       # (refusals by the constructor: single timers only)
            p = gen_case(rng, f'{cid}.p{j + 1}')
        span = p['horizon'] - p['t0']
        p['dt'] = 0 if rng.random() < 0.4 else gen_delay(rng)         # created `dt` after the first timer
        if rng.random() < 0.3 and c['timeout'] > p['dt']:
            p['timeout'] = c['timeout'] - p['dt']                      # its first expiry falls on the first timer's
        elif rng.random() < 0.15:
            p['timeout'] = c['timeout']
        if rng.random() < 0.3:
            p['args'] = c['args']                                      # equal callback arguments
        p['first'] = p['dt'] == 0 and rng.random() < 0.4               # constructed before the first timer
        del p['t0']
        p['horizon'] = c['t0'] + p['dt'] + span
        c['peers'].append(p)
    # calls from a callback onto ANOTHER timer of the group (member 0 is the first timer)
    for k, m in enumerate([c] + c['peers']):
        for ops in m['cb']:
            for op in list(ops):
                if rng.random() < 0.25:
                    other = rng.choice([x for x in range(n + 1) if x != k])
                    ops.append([op[0] + '@'] + op[1:] + [other])
                    if rng.random() < 0.5:
                        ops.remove(op)
    c['shared_cb'] = rng.random() < 0.5
    return c


# ------------------------------------------------------------------------------------------------
# running a case on the real Timer

def fmt_args(a):
    return '[' + ','.join(str(x) for x in a) + ']'


def argspec(a):
    if a is None:
        return 'N'
    if isinstance(a, (list, tuple)):
        return 'L' + ','.join(str(x) for x in a)
    return f'S{a}'


_CURRENT = [None]


def shared_callback(*a, **kw):
    """ONE callback function for every timer of every group of this process (groups with `shared_cb`): the firing is handed
    to the timer named by the keyword argument `who` that the harness gave to that Timer"""
    lead = _CURRENT[0]
    who = kw.pop('who', None)
    if lead is None or not isinstance(who, int) or not 0 <= who < len(lead.members):
        kw['who'] = who
        (lead.members[0] if lead else None).callback(*a, **kw)      # not attributable: wrong arguments at the first timer
        return
    lead.members[who].callback(*a, **kw)


class Run:
    def __init__(self, case, lead=None, idx=0):
        self.case = case
        self.lead = lead or self  # the Run of the first timer of the group (the one that owns the Environment and steps it)
        self.idx = idx
        self.members = [self]
        self.created = False
        self.labels = []        # input lines for the model
        self.impl = []          # the implementation's answer to each label
        self.events = []        # model-free history for the oracle
        self.procs = []         # every process object the timer ever had as `proc`
        self.in_cb = False
        self.cb_ops = []
        self.fires_now = []
        self.cb_count = 0
        self.failed = None

    def runaway(self):
        """the callback has been invoked more than 40 times at one and the same instant (a timer never has two expiries at one instant)"""
        f = [e for e in self.events[-60:] if e[0] == 'fire']
        return len(f) > 40 and all(bits(e[1]) == bits(f[-1][1]) for e in f[-41:])

    # ---- public snapshots -----------------------------------------------------------------
    def track(self):
        p = self.timer.proc
        if not any(p is q for q in self.procs):
            self.procs.append(p)

    def stat(self, p):
        if not p.is_alive:
            return 'F'
        return 'N' if isinstance(p.target, Initialize) else 'S'

    def snap(self):
        t = self.timer
        idx = next(i for i, q in enumerate(self.procs) if q is t.proc)
        return (f'S proc={idx} st={"".join(self.stat(p) for p in self.procs)} stopped={1 if t.stopped else 0} '
                f'timeout={bits(t.timeout)} start={bits(t.start_time)} expire={bits(t.expire_time)} now={bits(self.env.now)}')

    # ---- calls ------------------------------------------------------------------------------
    def do(self, op):
        """one stop()/restart(tau) call by an actor, by the harness, or from the callback"""
        now = self.env.now
        if op[0] == 'stop':
            self.events.append(('call', now, 'stop', None, self.in_cb))
            tok = 'stop'
        else:
            self.events.append(('call', now, 'restart', op[1], self.in_cb))
            tok = f'restart:{bits(op[1])}' if self.in_cb else f'restart {bits(op[1])}'
        err = None
        try:
            if op[0] == 'stop':
                self.timer.stop()
            else:
                self.timer.restart(op[1])
        except BaseException as x:      # noqa - any exception is a finding, recorded and re-raised inside callbacks
            err = x
            self.events.append(('exc', now, type(x).__name__, 'restart' if op[0] == 'restart' else 'stop'))
        self.track()
        if self.in_cb:
            self.cb_ops.append(tok)
            if err is not None:
                raise err
        else:
            self.labels.append(tok)
            self.impl.append(f'X {type(err).__name__}' if err is not None else self.snap())

    def callback(self, *a, **kw):
        self.events.append(('fire', self.env.now, tuple(a), dict(kw)))
        self.fires_now.append((self.env.now, tuple(a), dict(kw)))
        k = self.cb_count
        self.cb_count += 1
        ops = self.case['cb'][k] if k < len(self.case['cb']) else []
        self.in_cb = True
        try:
            for op in ops:
                if op[0].endswith('@'):
                    # a call onto ANOTHER timer of the group, made from this timer's callback: for that timer it is a call
                    # from outside (its own history gets the label)
                    other = self.lead.members[op[-1]] if op[-1] < len(self.lead.members) else None
                    if other is not None and other is not self and other.created:
                        self.in_cb = False
                        try:
                            other.do([op[0][:-1]] + op[1:-1])
                        finally:
                            self.in_cb = True
                    continue
                self.do(op)
        finally:
            self.in_cb = False

    def actor(self, script):
        for d, ops in script:
            yield self.env.timeout(d)
            for op in ops:
                self.do(op)

    # ---- the run ------------------------------------------------------------------------------
    def create(self):
        """construct the timer at the current instant (with the actors that are started before / after it)"""
        c, env = self.case, self.env
        for a in c['actors']:
            if a['pos'] == 'before':
                env.process(self.actor(a['script']))
        self.t0 = env.now
        self.labels.append(f'create {bits(env.now)} {bits(c["timeout"])} {1 if c["auto"] else 0} {argspec(c["args"])}')
        try:
            if self.lead.case.get('shared_cb'):
                self.timer = Timer(env, c['timeout'], shared_callback, auto_restart=c['auto'], args=c['args'], kwargs={'who': self.idx})
            else:
                self.timer = Timer(env, c['timeout'], self.callback, auto_restart=c['auto'], args=c['args'])
        except BaseException as x:
            self.impl.append(f'RAISED {type(x).__name__}' if isinstance(x, ValueError) else f'X {type(x).__name__}')
            self.events.append(('exc', env.now, type(x).__name__, 'create'))
            return False
        self.created = True
        self.track()
        self.impl.append(self.snap())
        self.events.append(('create', env.now, c['timeout'], c['auto'], c['args']))
        for op in c['direct']:
            self.do(op)
        for a in c['actors']:
            if a['pos'] == 'after':
                env.process(self.actor(a['script']))
        return True

    def create_later(self, dt):
        yield self.env.timeout(dt)
        self.create()

    def run(self):
        c = self.case
        env = self.env = Environment(c['t0'])
        _CURRENT[0] = self
        peers = [Run(pc, self, j + 1) for j, pc in enumerate(c.get('peers') or [])]
        self.members = [self] + peers
        for m in peers:
            m.env = env
            if m.case['dt'] == 0 and m.case.get('first'):
                m.create()
        ok = self.create()
        horizon = c['horizon']
        if ok:
            for m in peers:
                horizon = max(horizon, m.case['horizon'])
                if m.case['dt'] == 0 and not m.case.get('first'):
                    m.create()
                elif m.case['dt'] != 0:
                    env.process(m.create_later(m.case['dt']))
            steps = 0
            while env.peek() <= horizon and steps < STEP_BUDGET * len(self.members):
                steps += 1
                if not self.one_step():
                    break
                if any(m.runaway() for m in self.members):
                    break                   # a timer keeps firing at one and the same instant: the history so far is what the oracle judges
        for m in self.members:
            m.end = env.now
            m.drained = (not ok) or not (env.peek() <= horizon)
        return self

    def pre(self):
        self._pre = [(p.target, p.is_alive) for p in self.procs]
        self._mark = len(self.labels)
        self.fires_now = []
        self.cb_ops = []

    def one_step(self):
        """one kernel step; every timer of the group that exists reads its own transitions off its own processes"""
        env = self.env
        live = [m for m in self.members if m.created]
        for m in live:
            m.pre()
        now0 = bits(env.now)
        err = None
        try:
            env.step()
        except EmptySchedule:
            return False
        except BaseException as x:      # noqa
            err = x
        ticked = bits(env.now) != now0
        for m in live:
            m.post(err, ticked)
        return err is None

    def post(self, err, ticked):
        env = self.env
        pre, mark = self._pre, self._mark
        npre = len(pre)
        if err is not None:
            self.events.append(('exc', env.now, type(err).__name__, 'step'))
        # which timer process made a transition in this kernel step?
        trans = []
        for i in range(npre):
            tgt, alive = pre[i]
            p = self.procs[i]
            if not alive:
                continue
            if isinstance(tgt, Initialize):
                if p.target is not tgt:
                    trans.append(f'init {i}')
            elif isinstance(tgt, Timeout):
                if tgt.processed:
                    trans.append(' '.join([f'wake {i}'] + self.cb_ops))
                elif not p.is_alive:
                    trans.append(f'intr {i}')
        if self.fires_now and not any(t.startswith('wake') for t in trans):
            trans.append(' '.join(['wake 999'] + self.cb_ops))      # a firing that no observable wake explains
        if ticked:
            self.labels.insert(mark, f'tick {bits(env.now)}')
            self.impl.insert(mark, self.tick_snap(mark))
        for t in trans:
            self.labels.append(t)
            if err is not None:
                self.impl.append(f'X {type(err).__name__}')
            else:
                f = ''.join(f'F {bits(n)} {fmt_args(a)} ' for n, a, kw in self.fires_now) if t.startswith('wake') else ''
                self.impl.append(f + self.snap())
        if err is not None and not trans:
            self.labels.append('tick 0')        # an exception that no timer action explains: the model will not follow
            self.impl.append(f'X {type(err).__name__}')

    def tick_snap(self, mark):
        """the snapshot right after the clock advanced = the previous snapshot with the new `now`
        (nothing of the timer changes by the passing of time alone)"""
        prev = next(l for l in reversed(self.impl[:mark]) if l.startswith('S ') or ' S ' in l)
        body = prev[prev.index('S proc='):]
        return body[:body.rindex('now=')] + f'now={bits(self.env.now)}'

    def text(self):
        return '\n'.join([f'CASE {self.case["cid"]}'] + self.labels + ['END'])


# ------------------------------------------------------------------------------------------------
# the direct oracle: expected firing instants from the call history, by the rules of the property

def norm_args(a):
    if a is None:
        return ()
    if isinstance(a, (list, tuple)):
        return tuple(a)
    return (a,)


def oracle(run, stats=None):
    """returns a list of failures ({'what','signature'}); `stats` collects the position histogram"""
    fails = []
    ev = run.events
    excs = [e for e in ev if e[0] == 'exc']
    refused = run.case['timeout'] <= 0
    if refused:
        if stats is not None:
            stats['constructor-refusal'] += 1
        if not any(e[3] == 'create' and e[2] == 'ValueError' for e in excs):
            fails.append({'what': f'Timer(timeout={run.case["timeout"]}) was not refused with ValueError',
                          'signature': 'nonpositive-timeout-accepted'})
        return fails
    for e in excs:
        fails.append({'what': f'{e[2]} raised by {e[3]} at t={e[1]}', 'signature': f'exception:{e[2]}:{e[3]}'})
    created = next((e for e in ev if e[0] == 'create'), None)
    if created is None:
        return fails
    _, t0, timeout, auto, args = created
    want = norm_args(args)
    pending = t0 + timeout        # the instant of the next expected firing, None = none expected
    stopped = False
    lenient = False               # a one-shot timer that has fired was restarted from outside: unconstrained
    last_fire = None
    last_arm = t0
    for e in ev:
        if e[0] == 'fire':
            _, t, a, kw = e
            if a != want or kw:
                fails.append({'what': f'callback called with {a} {kw}, expected {want}', 'signature': 'wrong-arguments'})
            if stopped:
                fails.append({'what': f'callback fired at t={t} after stop()', 'signature': 'fired-after-stop'})
            elif not lenient:
                if pending is None:
                    again = (f': a one-shot timer (timeout {timeout!r}, armed at {last_arm!r}) invokes its callback exactly once, it had fired at {last_fire!r}'
                             if last_fire is not None and not auto else f' (previous firing at {last_fire})')
                    fails.append({'what': f'callback fired at t={t!r} although no expiry is pending{again}', 'signature': 'unexpected-fire'})
                elif bits(t) != bits(pending):
                    fails.append({'what': f'callback fired at t={t!r}, expected exactly at {pending!r} = {last_arm!r} + {timeout!r} '
                                          f'(instant of creation / restart / previous firing + timeout, as floats)', 'signature': 'fired-at-wrong-instant'})
            last_fire = t
            if auto:
                last_arm = t
            pending = (t + timeout) if auto else None
        elif e[0] == 'call':
            _, t, kind, tau, in_cb = e
            if stats is not None:
                if in_cb:
                    stats['cb-' + kind] += 1
                elif last_fire is not None and bits(last_fire) == bits(t):
                    stats['at-expiry-after-wake:' + kind] += 1
                elif pending is not None and not stopped and bits(pending) == bits(t):
                    stats['at-expiry-before-wake:' + kind] += 1
                elif pending is None or stopped:
                    stats['after-last-expiry:' + kind] += 1
                else:
                    stats['before-expiry:' + kind] += 1
            if pending is not None and not stopped and not lenient and pending < t:
                fails.append({'what': f'no firing at the expiry {pending} (next call at {t})', 'signature': 'missed-fire'})
                pending = None
            if kind == 'stop':
                stopped = True
            else:
                if pending is not None or in_cb:
                    pending = t + tau
                    last_arm = t
                else:
                    lenient = True
                timeout = tau
    if pending is not None and not stopped and not lenient and run.drained and pending <= run.case['horizon']:
        fails.append({'what': f'no firing at the expiry {pending} (run drained up to {run.case["horizon"]})',
                      'signature': 'missed-fire'})
    return fails


# ------------------------------------------------------------------------------------------------

def nontrivial(run, st):
    return any(k.startswith(('at-expiry', 'cb-')) for k in st) or st.get('same-instant', 0) > 0


def run(ctx):
    rng = random.Random(f'C19-{ctx.seed}')
    n = 6000 if ctx.quick else 150000
    if ctx.replay:
        j = json.load(open(ctx.replay))
        cases = [j['case']] if j.get('case') else []
        cases += [d['case'] for d in (j.get('broken_correspondence') or []) if d.get('case')]
        cases = [c for c in cases if not c.get('timerk')]
    else:
        cases = [gen_group(rng, i) for i in range(n)]
    for i, c in enumerate(cases):
        c['cid'] = str(i)
        for j, pc in enumerate(c.get('peers') or []):
            pc['cid'] = f'{i}.p{j + 1}'
    disagreements, oracle_failures = [], []
    hist = collections.Counter()
    distinct = set()
    nontriv = 0
    samples = []
    lines_compared = 0
    CH = 2000                                   # bounded memory: run, replay and compare chunk by chunk
    for lo in range(0, len(cases), CH):
        runs = []
        with quiet():
            for c in cases[lo:lo + CH]:
                runs += Run(c).run().members         # every timer of a group is a history of its own
        model = split_cases(run_driver('timer', '\n'.join(r.text() for r in runs) + '\n'))
        nontriv, lines_compared = compare_chunk(runs, model, disagreements, oracle_failures, hist, distinct, samples,
                                                nontriv, lines_compared)
    cov = {
        'evaluations': len(cases),
        'distinct_nontrivial': nontriv,
        'rule': 'seeded random stop/restart histories on the real Timer (40% of them next to 1-3 other timers with their own histories in the same Environment); non-trivial = distinct case with a call at an expiry '
                'instant (before or after the wake), a call from the callback, or several calls at one instant',
        'samples': samples,
        'histories_validated_against_impl': len(cases) - len({d['case']['cid'] for d in disagreements}),
        'action_lines_compared': lines_compared,
        'operation_histogram': dict(sorted(hist.items())),
    }
    kdis, korc, kcov = run_timerk(ctx)        # extra leg: the K program of Props/C19K.lean against the real Timer
    cov['timer_on_kernel_model'] = kcov
    return {'coverage': cov, 'disagreements': disagreements + kdis, 'oracle_failures': oracle_failures + korc}


# ---- the Timer as processes on the kernel MODEL (lean/OnlVerif/Util/TimerOnK.lean, driver mode `timerk`) -------------

def gen_timerk(rng, cid):
    """one controller process created before or after the timer; gaps aimed at expiry instants (both sides of the wake);
    the callback may stop/restart its own timer"""
    tmo = gen_timeout(rng)
    auto = rng.random() < 0.5
    script, last = [], tmo
    for _ in range(rng.choice([0, 1, 1, 2, 2, 3, 4, 6])):
        x = rng.random()
        gap = last if x < 0.35 else (0 if x < 0.45 else gen_delay(rng))
        op = gen_op(rng)
        if op[0] == 'restart':
            last = op[1]
        script.append([gap, op])
    cb = []
    for _ in range(rng.choice([0, 0, 1, 2, 3])):
        cb.append(None if rng.random() < 0.4 else gen_op(rng))
    until = min(sum(g for g, _ in script) + 3 * tmo + rng.choice([0.5, 1, 2, 4]), 40.0)
    return {'cid': f'k{cid}', 'timerk': True, 'auto': auto, 'arg': rng.randint(-5, 99), 'ctl_first': rng.random() < 0.5,
            'timeout': tmo, 'until': until, 'script': script, 'cb': cb}


def timerk_text(c):
    def opt(op):
        return 'stop' if op[0] == 'stop' else f'restart {bits(op[1])}'
    return ([f"CASE {c['cid']} {1 if c['auto'] else 0} {c['arg']} {1 if c['ctl_first'] else 0} {bits(c['timeout'])} {bits(c['until'])} 6000"]
            + [('cb none' if op is None else 'cb ' + opt(op)) for op in c['cb']]
            + [f'op {bits(g)} {opt(op)}' for g, op in c['script']] + ['END'])


def timerk_impl(c):
    """the real Timer and a real controller process on the real kernel, public API only; same lines as the driver prints"""
    env = Environment()
    hist, fired, box = [], [0], {}

    class FireBudget(BaseException):
        pass

    def callback(*a):
        hist.append(f'fire {bits(env.now)}' if a == (c['arg'],) else f'fire-with-wrong-args {a}')
        k = fired[0]
        fired[0] += 1
        if fired[0] > 6000 or (fired[0] > 50 and len(set(hist[-50:])) == 1):
            raise FireBudget()          # env.run() would never return: the callback fires without end (50 times at one instant / 6000 times)
        op = c['cb'][k] if k < len(c['cb']) else None
        if op is not None:
            box['t'].stop() if op[0] == 'stop' else box['t'].restart(op[1])

    def controller():
        for gap, op in c['script']:
            yield env.timeout(gap)
            if op[0] == 'stop':
                hist.append(f'stop {bits(env.now)}')
                box['t'].stop()
            else:
                hist.append(f'restart {bits(op[1])} {bits(env.now)}')
                box['t'].restart(op[1])
    try:
        if c['ctl_first']:
            env.process(controller())
        box['t'] = t = Timer(env, c['timeout'], callback, auto_restart=c['auto'], args=c['arg'])
        if not c['ctl_first']:
            env.process(controller())
        with quiet():
            # the run is env.run(until=...), preceded by up to 60000 single steps of everything due before `until` (the same run, C03):
            # a timer process that keeps re-arming itself at one instant would otherwise never let run() return
            steps = 0
            while env.peek() < c['until'] and steps < 60000:
                env.step()
                steps += 1
            if steps >= 60000:
                raise FireBudget()
            env.run(until=c['until'])
        tag = 'RET'
    except FireBudget:
        tag = 'RAISED the-timer-process-never-comes-to-rest'
        t = box.get('t')
        del hist[60:]
    except BaseException as x:      # noqa - the property says nothing raises
        tag = f'RAISED {type(x).__name__}'
        t = box.get('t')
    cells = '?' if t is None else (f'cells stopped={1 if t.stopped else 0} expire={bits(t.expire_time)} timeout={bits(t.timeout)} '
                                   f'start={bits(t.start_time)} fired={fired[0]}')
    return [tag] + hist + [cells, f'now {bits(env.now)}']


def timerk_oracle(c, lines, stats=None):
    """C19 restated over the implementation's own call/fire history (the acceptor `TimerOnK.ostep`, written again here):
    a firing happens exactly at the pending instant; no call finds a pending firing overdue; stop is final; restart(tau) at t
    on a pending timer moves the next firing to t + tau; nothing pending is overdue when the run ends"""
    if lines[0] != 'RET':
        return [{'what': f'the run ended with {lines[0]}', 'signature': 'timerk-raised'}]
    pending, tmo, fired = 0.0 + c['timeout'], c['timeout'], 0
    for l in lines[1:-2]:
        w = l.split()
        if w[0] == 'fire':
            t = unbits(int(w[1]))
            if pending is None or bits(pending) != bits(t):
                return [{'what': f'callback fired at {t!r}, prescribed: {pending!r}', 'signature': 'timerk-fire-instant'}]
            op = c['cb'][fired] if fired < len(c['cb']) else None
            fired += 1
            if op is None:
                pending = t + tmo if c['auto'] else None
            elif op[0] == 'stop':
                pending = None
            else:
                pending, tmo = t + op[1], op[1]
        elif w[0] in ('stop', 'restart'):
            t = unbits(int(w[-1]))
            if pending is not None and pending < t:
                return [{'what': f'no firing at the expiry {pending!r} (next call at {t!r})', 'signature': 'timerk-missed-fire'}]
            if stats is not None and pending is not None and bits(pending) == bits(t):
                stats['call-at-expiry-instant:before-the-wake'] += 1
            if w[0] == 'stop':
                pending = None
            else:
                tau = unbits(int(w[1]))
                pending, tmo = (t + tau if pending is not None else None), tau
        else:
            return [{'what': f'unexpected history line {l}', 'signature': 'timerk-history'}]
    if pending is not None and pending < c['until']:
        return [{'what': f'no firing at the expiry {pending!r} (run(until={c["until"]!r}) returned)', 'signature': 'timerk-missed-fire'}]
    return []


@guarded_leg(lambda: ([], [], {}))
def run_timerk(ctx):
    """extra leg: the K program of the Timer (TimerOnK.body, the object of the theorems in Props/C19K.lean) against the real Timer"""
    rng = random.Random(f'C19-timerk-{ctx.seed}')
    if ctx.replay:
        j = json.load(open(ctx.replay))
        cases = ([j['case']] if j.get('case') else []) + [d['case'] for d in (j.get('broken_correspondence') or []) if d.get('case')]
        cases = [c for c in cases if c.get('timerk')]
    else:
        cases = [gen_timerk(rng, i) for i in range(400 if ctx.quick else 8000)]
    text, impl = [], {}
    for c in cases:
        impl[c['cid']] = timerk_impl(c)
        text += timerk_text(c)
    model = split_cases(run_driver('timerk', '\n'.join(text) + '\n')) if cases else {}
    dis, orc, hist, nontriv = [], [], collections.Counter(), 0
    for c in cases:
        a, b = impl[c['cid']], model.get(c['cid'])
        if a != b:
            i = next((i for i in range(max(len(a), len(b or []))) if i >= len(a) or not b or i >= len(b) or a[i] != b[i]), 0)
            dis.append({'case': c, 'detail': f'timerk line {i}: impl `{a[i] if i < len(a) else None}` model `{b[i] if b and i < len(b) else None}`',
                        'impl': a[:300], 'model': (b or [])[:300]})
        st = collections.Counter()
        for f in timerk_oracle(c, a, st):
            f['case'] = c; f['trace'] = a[:300]
            orc.append(f)
        hist.update(st)
        ev = [l.split() for l in a[1:-2]]
        coinc = sum(st.values()) > 0
        coinc2 = any(x[0] == 'fire' and y[0] != 'fire' and x[-1] == y[-1] for x, y in zip(ev, ev[1:]))   # firing, then call, same instant
        hist['fires'] += sum(1 for x in ev if x[0] == 'fire')
        hist['calls'] += sum(1 for x in ev if x[0] != 'fire')
        hist['call-at-expiry-instant:after-the-wake'] += coinc2
        hist['callback-calls'] += sum(1 for op in c['cb'][:sum(1 for x in ev if x[0] == 'fire')] if op is not None)
        hist['controller-first' if c['ctl_first'] else 'timer-first'] += 1
        if coinc or coinc2 or any(op is not None for op in c['cb']) or len(c['script']) >= 2:
            nontriv += 1
    cov = {'evaluations': len(cases), 'distinct_nontrivial': nontriv, 'lines_compared': sum(len(v) for v in impl.values()),
           'rule': 'random controller scripts and callback scripts run by the K program at Float (driver mode timerk) and by the real Timer with a '
                   'real controller process under env.run(until=...); non-trivial = a call at the instant of a firing, a call from the '
                   'callback, or at least two controller calls', 'histogram': dict(sorted(hist.items())),
           'sample': cases[0] if cases else None}
    return dis, orc, cov


def compare_chunk(runs, model, disagreements, oracle_failures, hist, distinct, samples, nontriv, lines_compared):
    for r in runs:
        c = r.case
        top = r.lead.case                      # the whole group is the failing input / the replayable case
        n_grp = len(r.lead.members)
        label = '' if n_grp == 1 else (f'timer {r.idx + 1} of {n_grp} in one Environment'
                                       f'{" (all with one callback function)" if top.get("shared_cb") else ""}: ')
        m = model.get(c['cid'])
        lines_compared += len(r.impl)
        st = collections.Counter()
        fails = oracle(r, st)
        if n_grp > 1:
            hist['timers in groups'] += 1
            hist['groups'] += 1 if r.idx == 0 else 0
            hist['groups with one shared callback'] += 1 if (r.idx == 0 and top.get('shared_cb')) else 0
            if r.idx > 0:
                hist['peer timers: created later than the first'] += 1 if c['dt'] != 0 else 0
                hist['peer timers: fires'] += sum(1 for e in r.events if e[0] == 'fire')
                mine = {bits(e[1]) for e in r.events if e[0] == 'fire'}
                hist['peer timers: firing at an instant at which the first timer fires'] += \
                    len(mine & {bits(e[1]) for e in r.lead.events if e[0] == 'fire'})
                hist['peer timers: equal arguments'] += 1 if c['args'] == top['args'] else 0
            hist['calls from another timer\'s callback'] += sum(1 for mm in r.lead.members if mm is not r for ops in mm.case['cb'] for op in ops
                                                                if op[0].endswith('@') and op[-1] == r.idx)
        calls = [e for e in r.events if e[0] == 'call' and not e[4]]
        inst = collections.Counter(bits(e[1]) for e in calls)
        if any(v >= 2 for v in inst.values()):
            st['same-instant'] += 1
        hist.update(st)
        for l in r.labels:
            hist['action:' + l.split(' ')[0]] += 1
        hist['fires'] += sum(1 for e in r.events if e[0] == 'fire')
        hist['auto' if c['auto'] else 'one-shot'] += 1
        hist['args:' + ('none' if c['args'] is None else 'list' if isinstance(c['args'], list) else 'scalar')] += 1
        hist['timeout:dyadic' if float(c['timeout']) * 4 == int(float(c['timeout']) * 4) else 'timeout:arbitrary-float'] += 1
        first = getattr(r, 't0', 0) + c['timeout']
        if round(first, 9) != first:
            hist['first expiry not on a nanosecond grid'] += 1
        n_intr = sum(1 for l in r.labels if l.startswith('intr '))
        hist['silent-interrupts-resolved-by-model'] += max(0, len(r.procs) - 1 - n_intr)
        key = json.dumps({k: v for k, v in top.items() if k != 'cid'}, sort_keys=True)
        nt = nontrivial(r, st)
        if r.idx == 0:
            if nt and key not in distinct:
                nontriv += 1
            distinct.add(key)
        if r.impl != m:
            d = next((i for i in range(max(len(r.impl), len(m or []))) if i >= len(r.impl) or not m or i >= len(m) or r.impl[i] != m[i]), None)
            detail = 'length'
            if d is not None:
                detail = (f'{label}line {d} `{r.labels[d] if d < len(r.labels) else "<end>"}`: impl `{r.impl[d] if d < len(r.impl) else "<end>"}` '
                          f'model `{m[d] if m and d < len(m) else "<end>"}`')
            keep = len(disagreements) < 25
            disagreements.append({'case': top, 'detail': detail, 'impl': r.impl[:200] if keep else [], 'model': (m or [])[:200] if keep else []})
        seen_sig = set()
        for f in fails:
            if f['signature'] in seen_sig:
                continue                       # one failure per signature and case
            seen_sig.add(f['signature'])
            f['case'] = top
            f['what'] = label + f['what']
            if len(oracle_failures) < 25:      # full traces only for the first few (the framework writes 5 replays)
                f['trace'] = {'history': [list(map(str, e)) for e in r.events][:200], 'labels': r.labels[:200],
                              'impl': r.impl[:200]}
            oracle_failures.append(f)
        if len(samples) < 2 and nt and len(r.labels) > 6:
            samples.append({'case': top, 'labels': r.labels[:40], 'implementation_answers': r.impl[:40]})
    return nontriv, lines_compared
