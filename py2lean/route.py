"""py2lean for C18: regenerate the decision logic of `FlowDemux.put`, `FIBDemux.put` and `Splitter.put` from the source.

The three methods are read with `ast` from `$ONL_REPO/onl/netdev/{demux,splitter}.py` and written as terms of the small effect
language `OnlVerif/Net/PyEff.lean` into `lean/OnlVerif/Generated/Route.lean`.  `C18.generated_dispatch_agrees` proves that the
generated definitions coincide with the hand-written dispatch models on every input, so an edit of the source that changes
the routing decision makes that proof fail to compile (exhaustively, not by sampling).

Supported subset (anything else is a `TranslateError`, i.e. a translator failure):
  statements : `self.packets_recevied += 1` (ignored counter), `name = <pure expr>`, `if/else`, `raise E(...)`, `assert e`,
               `try/except (E, …) [as x]`, `print(...)` (ignored), `<target>.put(<packet expr>)`
  expressions: `self.<field>`, `packet`, `packet.flow_id`, local names, `a[b]` on list / dict fields (may raise),
               `copy(packet)`, `len(list field)`, `a < b`, `x is None`, `k in dict field`, truthiness of an optional field
"""
import ast, os, difflib

HERE = os.path.dirname(os.path.abspath(__file__))
VERIF = os.path.dirname(HERE)
OUT = os.path.join(VERIF, 'lean', 'OnlVerif', 'Generated', 'Route.lean')
PINNED = os.path.join(HERE, 'pinned', 'Route.lean')


class TranslateError(Exception):
    pass


# field schema: python attribute -> (lean field, type)
SCHEMA = {
    'FlowDemux': {'cfg': 'FlowDemuxCfg', 'fields': {'outs': ('outs', 'list'), 'default_out': ('default', 'optdev')}},
    'FIBDemux': {'cfg': 'FIBDemuxCfg', 'fields': {'outs': ('outs', 'optlist'), 'ends': ('ends', 'devdict'),
                                                  '_fib': ('fib', 'optintdict'), 'default_out': ('default', 'optdev')}},
    'Splitter': {'cfg': 'SplitterCfg', 'fields': {'out1': ('out1', 'optdev'), 'out2': ('out2', 'optdev')}},
}
COUNTERS = {'packets_recevied'}
ERRS = {'ValueError': '.valueError', 'KeyError': '.keyError', 'IndexError': '.indexError', 'AssertionError': '.assertionError',
        'AttributeError': '.attributeError', 'TypeError': '.typeError'}


class Tr:
    def __init__(self, cls):
        self.cls = cls
        self.fields = SCHEMA[cls]['fields']
        self.env = {}        # local name -> (lean term, type)
        self.n = 0

    def fresh(self):
        self.n += 1
        return f'v{self.n}'

    # ---- expressions: returns (binds, term, type); binds = [(var, effect term)] evaluated in order ----
    def expr(self, e):
        if isinstance(e, ast.Name):
            if e.id == 'packet':
                return [], 'packet', 'pkt'
            if e.id in self.env:
                t, ty = self.env[e.id]
                return [], t, ty
            raise TranslateError(f'unknown name {e.id}')
        if isinstance(e, ast.Attribute) and isinstance(e.value, ast.Name):
            if e.value.id == 'self':
                if e.attr not in self.fields:
                    raise TranslateError(f'unknown field self.{e.attr}')
                f, ty = self.fields[e.attr]
                return [], f'self.{f}', ty
            if e.value.id == 'packet' and e.attr == 'flow_id':
                return [], 'packet.flowId', 'int'
            if e.value.id in self.env and self.env[e.value.id][1] == 'pkt' and e.attr == 'flow_id':
                return [], f'{self.env[e.value.id][0]}.flowId', 'int'
        if isinstance(e, ast.Subscript):
            b1, base, bty = self.expr(e.value)
            b2, idx, ity = self.expr(e.slice)
            if ity != 'int':
                raise TranslateError('subscript must be an int')
            op, rty = {'list': ('Eff.index', 'dev'), 'optlist': ('Eff.indexOpt', 'dev'), 'devdict': ('Eff.item', 'dev'),
                       'intdict': ('Eff.item', 'int'), 'optintdict': ('Eff.itemOpt', 'int')}.get(bty, (None, None))
            if op is None:
                raise TranslateError(f'cannot subscript a value of type {bty}')
            v = self.fresh()
            return b1 + b2 + [(v, f'{op} {base} {idx}')], v, rty
        if isinstance(e, ast.Call) and isinstance(e.func, ast.Name) and e.func.id == 'copy' and len(e.args) == 1:
            b, t, ty = self.expr(e.args[0])
            if ty != 'pkt':
                raise TranslateError('copy() of a non-packet')
            v = self.fresh()
            return b + [(v, f'Eff.copy {t}')], v, 'pkt'
        if isinstance(e, ast.Call) and isinstance(e.func, ast.Name) and e.func.id == 'len' and len(e.args) == 1:
            b, t, ty = self.expr(e.args[0])
            if b or ty != 'list':
                raise TranslateError('len() of something that is not a plain list field')
            return [], f'(pyLen {t})', 'int'
        raise TranslateError('unsupported expression: ' + ast.dump(e)[:120])

    def cond(self, e):
        """a pure condition as a Lean Bool term"""
        if isinstance(e, ast.Compare) and len(e.ops) == 1:
            op = e.ops[0]
            if isinstance(op, (ast.Is, ast.IsNot)) and isinstance(e.comparators[0], ast.Constant) and e.comparators[0].value is None:
                b, t, ty = self.expr(e.left)
                if b or not ty.startswith('opt'):
                    raise TranslateError('`is None` on a non-optional value')
                return f'({t}).isNone' if isinstance(op, ast.Is) else f'({t}).isSome'
            if isinstance(op, (ast.In, ast.NotIn)):
                b1, k, kty = self.expr(e.left)
                b2, d, dty = self.expr(e.comparators[0])
                if b1 or b2 or kty != 'int' or dty not in ('devdict', 'intdict'):
                    raise TranslateError('unsupported `in`')
                return f'(pyIn {k} {d})' if isinstance(op, ast.In) else f'(!(pyIn {k} {d}))'
            sym = {ast.Lt: '<', ast.LtE: '≤', ast.Gt: '>', ast.GtE: '≥', ast.Eq: '=', ast.NotEq: '≠'}.get(type(op))
            if sym:
                b1, a, aty = self.expr(e.left)
                b2, c, cty = self.expr(e.comparators[0])
                if b1 or b2 or aty != 'int' or cty != 'int':
                    raise TranslateError('comparison of non-int or effectful operands')
                return f'(decide ({a} {sym} {c}))'
        if isinstance(e, ast.UnaryOp) and isinstance(e.op, ast.Not):
            return f'(!{self.cond(e.operand)})'
        b, t, ty = self.expr(e)
        if b:
            raise TranslateError('effectful condition')
        if ty == 'optdev':
            return f'(truthyOpt {t})'
        if ty == 'optlist':
            return f'(truthyOptList {t})'
        raise TranslateError(f'truthiness of a value of type {ty}')

    # ---- statements ----
    def wrap(self, binds, body):
        for v, eff in reversed(binds):
            body = f'(Eff.bind ({eff}) fun {v} => {body})'
        return body

    def stmt(self, s):
        if isinstance(s, ast.AugAssign) and isinstance(s.target, ast.Attribute) and s.target.attr in COUNTERS:
            return 'Eff.skip'
        if isinstance(s, ast.Expr) and isinstance(s.value, ast.Constant):
            return 'Eff.skip'                       # docstring
        if isinstance(s, ast.Expr) and isinstance(s.value, ast.Call):
            c = s.value
            if isinstance(c.func, ast.Name) and c.func.id == 'print':
                return 'Eff.skip'
            if isinstance(c.func, ast.Attribute) and c.func.attr == 'put' and len(c.args) == 1:
                b1, tgt, tty = self.expr(c.func.value)
                b2, arg, aty = self.expr(c.args[0])
                if aty != 'pkt':
                    raise TranslateError('put() of a non-packet')
                op = {'dev': 'Eff.put', 'optdev': 'Eff.putOpt'}.get(tty)
                if op is None:
                    raise TranslateError(f'put() on a value of type {tty}')
                return self.wrap(b1 + b2, f'({op} {tgt} {arg})')
        if isinstance(s, ast.Raise) and isinstance(s.exc, (ast.Call, ast.Name)):
            name = s.exc.func.id if isinstance(s.exc, ast.Call) else s.exc.id
            if name in ERRS:
                return f'(Eff.raise {ERRS[name]})'
        if isinstance(s, ast.Assert):
            return f'(Eff.assert {self.cond(s.test)})'
        if isinstance(s, ast.If):
            c = self.cond(s.test)
            a = self.block(s.body)
            b = self.block(s.orelse) if s.orelse else 'Eff.skip'
            return f'(if {c} then {a} else {b})'
        if isinstance(s, ast.Try) and not s.finalbody and not s.orelse and len(s.handlers) == 1:
            h = s.handlers[0]
            tys = h.type.elts if isinstance(h.type, ast.Tuple) else [h.type]
            names = []
            for t in tys:
                if not (isinstance(t, ast.Name) and t.id in ERRS):
                    raise TranslateError('unsupported exception class in except')
                names.append(ERRS[t.id])
            return f'(Eff.tryCatch {self.block(s.body)} [{", ".join(names)}] {self.block(h.body)})'
        raise TranslateError('unsupported statement: ' + ast.dump(s)[:160])

    def block(self, stmts):
        stmts = list(stmts)
        if not stmts:
            return 'Eff.skip'
        s = stmts[0]
        # local assignment of a pure expression: substitute
        if isinstance(s, ast.Assign) and len(s.targets) == 1 and isinstance(s.targets[0], ast.Name):
            b, t, ty = self.expr(s.value)
            if b:
                raise TranslateError('assignment of an effectful expression')
            self.env[s.targets[0].id] = (t, ty)
            return self.block(stmts[1:])
        head = self.stmt(s)
        if len(stmts) == 1:
            return head
        return f'(Eff.seq {head} {self.block(stmts[1:])})'


def find_method(tree, cls, name):
    for n in tree.body:
        if isinstance(n, ast.ClassDef) and n.name == cls:
            for m in n.body:
                if isinstance(m, ast.FunctionDef) and m.name == name:
                    return m
    raise TranslateError(f'{cls}.{name} not found')


def translate(repo):
    srcs = {'FlowDemux': 'onl/netdev/demux.py', 'FIBDemux': 'onl/netdev/demux.py', 'Splitter': 'onl/netdev/splitter.py'}
    defs = []
    for cls in ('FlowDemux', 'FIBDemux', 'Splitter'):
        path = os.path.join(repo, srcs[cls])
        tree = ast.parse(open(path).read())
        m = find_method(tree, cls, 'put')
        args = [a.arg for a in m.args.args]
        if args != ['self', 'packet']:
            raise TranslateError(f'{cls}.put has parameters {args}')
        body = Tr(cls).block(m.body)
        src = ast.get_source_segment(open(path).read(), m) or ''
        doc = '\n'.join('    ' + l for l in src.splitlines())
        defs.append(f'/-- translated from `{srcs[cls]}`:\n```\n{doc}\n```\n-/\n'
                    f'def {cls}_put (self : {SCHEMA[cls]["cfg"]}) (packet : Pkt) : Eff Unit :=\n  {body}\n')
    head = ('import OnlVerif.Net.PyEff\n/-! GENERATED by `py2lean/route.py` from the Python source on every run of `./check C18` — do not edit. -/\n\n'
            'namespace Route.Gen\nopen Route Route.Py\n\n')
    return head + '\n'.join(defs) + '\nend Route.Gen\n'


def regenerate(repo=None, pin=False):
    """write lean/OnlVerif/Generated/Route.lean (only if its text changes); returns a small report"""
    repo = repo or os.environ.get('ONL_REPO', '/repo')
    text = translate(repo)
    old = open(OUT).read() if os.path.exists(OUT) else None
    if old != text:
        os.makedirs(os.path.dirname(OUT), exist_ok=True)
        with open(OUT + '.tmp', 'w') as f:
            f.write(text)
        os.replace(OUT + '.tmp', OUT)
    if pin:
        os.makedirs(os.path.dirname(PINNED), exist_ok=True)
        with open(PINNED, 'w') as f:
            f.write(text)
    diff = []
    if os.path.exists(PINNED):
        diff = [l for l in difflib.unified_diff(open(PINNED).read().splitlines(), text.splitlines(), 'pinned', 'generated', lineterm='', n=0)
                if not l.startswith(('---', '+++', '@@'))]
    return {'translated': ['FlowDemux.put', 'FIBDemux.put', 'Splitter.put'], 'rewritten': old != text,
            'diff_vs_pinned': diff[:40]}


if __name__ == '__main__':
    import sys
    print(regenerate(pin='--pin' in sys.argv))
