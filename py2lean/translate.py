"""py2lean - regenerate Lean definitions from the *current* source of the library under verification.

Scope (deliberately small): non-generator methods whose body is made of assignments to `self.<field>` or to
locals, augmented assignments, `if/elif/else`, arithmetic `+ - * /`, `**` , unary minus, comparisons,
`and/or/not`, `min/max/abs` of two/one arguments, numeric and boolean literals, and calls of other translated
methods of `self` used as statements.  Besides whole methods, named *fragments* of larger methods can be
extracted (a statement range, the assignments to one attribute, or the test of one `if`).

Every method `C.m` becomes two Lean functions over the structure given by the schema:

* `C.m   : S α → args → S α`    the state after the call (Python evaluation order, Python `min/max` semantics);
* `C.m.safe : S α → args → Bool` `true` iff the executed path performs no division by zero and evaluates no
  power with a non-literal exponent - the two operations of the subset that are partial in Python
  (`ZeroDivisionError`) or absent from exact rational arithmetic (`x ** (1.0 / 3)`).

Anything outside the subset raises `Unsupported`: the translator never guesses.  `regenerate_all()` rewrites
`lean/OnlVerif/Generated/*.lean` only when the content changed, so an unchanged source costs no rebuild.
"""
import ast, os, textwrap
from fractions import Fraction

from vlib.util import REPO, LEAN


class Unsupported(Exception):
    pass


def fail(node, why):
    line = getattr(node, 'lineno', '?')
    try:
        src = ast.unparse(node)
    except Exception:
        src = ast.dump(node)
    raise Unsupported(f'py2lean: {why} (line {line}): {src[:160]}')


BIN = {ast.Add: '+', ast.Sub: '-', ast.Mult: '*', ast.Div: '/'}


def nonzero_literal(e):
    return isinstance(e, ast.Constant) and isinstance(e.value, (int, float)) and not isinstance(e.value, bool) and e.value != 0


def dotted(e):
    """'self.env.now' for an attribute chain rooted at a name, else None"""
    parts = []
    while isinstance(e, ast.Attribute):
        parts.append(e.attr)
        e = e.value
    if isinstance(e, ast.Name):
        parts.append(e.id)
        return '.'.join(reversed(parts))
    return None


class Schema:
    """Lean structure: ordered fields with type 'num' (the scalar α) or 'bool'; fields of the Python object that the
    translated methods may mention but that carry no modelled state are listed in `ignore`."""

    def __init__(self, name, fields, ignore=(), doc=''):
        self.name, self.fields, self.ignore, self.doc = name, dict(fields), set(ignore), doc

    def lean(self):
        out = [f'/-- {self.doc} -/', f'structure {self.name} (α : Type) where']
        for f, t in self.fields.items():
            out.append(f'  {f} : {"α" if t == "num" else "Bool"}')
        return '\n'.join(out) + '\n'


class Tr:
    """translation of one function body.  `ext` maps dotted Python paths (e.g. 'self.env.now') to Lean parameter
    names; `scalars`/`bools` are the names in scope; `methods` maps a method name callable on self to its Lean name."""

    def __init__(self, schema, params, ext=None, methods=None, consts=None):
        self.schema = schema
        self.scope = {p: 'num' for p in params}
        self.ext = dict(ext or {})
        self.methods = dict(methods or {})
        self.consts = dict(consts or {})     # name -> python constant (parameters bound to their defaults)

    # ---- expressions: returns (lean text, type in {'num','bool','prop'}, [safety checks]) -------------
    def num(self, e):
        t, ty, ch = self.expr(e)
        if ty != 'num':
            fail(e, f'a number is required here, got {ty}')
        return t, ch

    def cond(self, e):
        """a decidable proposition"""
        t, ty, ch = self.expr(e)
        if ty == 'bool':
            return f'({t} = true)', ch
        if ty == 'prop':
            return t, ch
        fail(e, 'truth value of a number is outside the subset')

    def const(self, node, v):
        if isinstance(v, bool):
            return ('true' if v else 'false'), 'bool', []
        if isinstance(v, int):
            if v < 0:
                return f'(-(Num.ofNat {-v} : α))', 'num', []
            return f'(Num.ofNat {v} : α)', 'num', []
        if isinstance(v, float):
            fr = Fraction(repr(v))
            if float(fr.numerator) / float(fr.denominator) != v or fr.numerator >= 2 ** 53 or fr.denominator >= 2 ** 53:
                fail(node, 'float literal that is not the correctly rounded quotient of two small integers')
            sign = '-' if fr < 0 else ''
            p, q = abs(fr.numerator), fr.denominator
            body = f'(Num.ofNat {p} : α)' if q == 1 else f'((Num.ofNat {p} : α) / Num.ofNat {q})'
            return (f'(-{body})' if sign else body), 'num', []
        fail(node, f'literal of type {type(v).__name__}')

    def expr(self, e):
        d = dotted(e)
        if d is not None and d in self.ext:
            return self.ext[d], 'num', []
        if isinstance(e, ast.Attribute):
            if isinstance(e.value, ast.Name) and e.value.id == 'self':
                if self.schema is None or e.attr not in self.schema.fields:
                    fail(e, f'attribute self.{e.attr} is not in the schema')
                return f's.{e.attr}', self.schema.fields[e.attr], []
            fail(e, 'attribute of something other than self')
        if isinstance(e, ast.Name):
            if e.id in self.scope:
                return e.id, self.scope[e.id], []
            if e.id in self.consts:
                return self.const(e, self.consts[e.id])
            fail(e, f'unknown name {e.id}')
        if isinstance(e, ast.Constant):
            return self.const(e, e.value)
        if isinstance(e, ast.UnaryOp) and isinstance(e.op, ast.USub):
            t, ch = self.num(e.operand)
            return f'(-{t})', 'num', ch
        if isinstance(e, ast.UnaryOp) and isinstance(e.op, ast.Not):
            t, ch = self.cond(e.operand)
            return f'(¬ {t})', 'prop', ch
        if isinstance(e, ast.BoolOp):
            parts = [self.cond(v) for v in e.values]
            op = ' ∧ ' if isinstance(e.op, ast.And) else ' ∨ '
            # Python short-circuits; the subset has no side effects, and the safety checks of all operands are kept
            return '(' + op.join(p[0] for p in parts) + ')', 'prop', [c for p in parts for c in p[1]]
        if isinstance(e, ast.BinOp):
            if type(e.op) in BIN:
                a, ca = self.num(e.left)
                b, cb = self.num(e.right)
                ch = ca + cb
                if isinstance(e.op, ast.Div) and not nonzero_literal(e.right):
                    ch = ch + [f'Num.nonzero {b}']
                return f'({a} {BIN[type(e.op)]} {b})', 'num', ch
            if isinstance(e.op, ast.Pow):
                a, ca = self.num(e.left)
                if isinstance(e.right, ast.Constant) and isinstance(e.right.value, int) \
                        and not isinstance(e.right.value, bool) and e.right.value >= 0:
                    return f'(NumX.powNat {a} {e.right.value})', 'num', ca
                b, cb = self.num(e.right)
                # not an operation of exact arithmetic: the path is marked unsafe
                return f'(NumX.rpow {a} {b})', 'num', ca + cb + ['false']
            fail(e, 'binary operator outside the subset')
        if isinstance(e, ast.Compare):
            if len(e.ops) != 1:
                fail(e, 'chained comparison')
            a, ca = self.num(e.left)
            b, cb = self.num(e.comparators[0])
            op = type(e.ops[0])
            if op is ast.Lt:
                t = f'({a} < {b})'
            elif op is ast.LtE:
                t = f'({a} ≤ {b})'
            elif op is ast.Gt:
                t = f'({b} < {a})'
            elif op is ast.GtE:
                t = f'({b} ≤ {a})'
            elif op is ast.Eq:
                t = f'(Num.eqb {a} {b} = true)'
            elif op is ast.NotEq:
                t = f'(Num.eqb {a} {b} = false)'
            else:
                fail(e, 'comparison operator outside the subset')
            return t, 'prop', ca + cb
        if isinstance(e, ast.Call) and isinstance(e.func, ast.Name) and not e.keywords:
            if e.func.id in ('min', 'max') and len(e.args) == 2:
                a, ca = self.num(e.args[0])
                b, cb = self.num(e.args[1])
                return f'(Num.py{e.func.id} {a} {b})', 'num', ca + cb
            if e.func.id == 'abs' and len(e.args) == 1:
                a, ca = self.num(e.args[0])
                return f'(Num.pyabs {a})', 'num', ca
        fail(e, 'expression outside the subset')

    # ---- statements ---------------------------------------------------------------------------------------
    def self_call(self, st):
        """`self.m(args)` as a statement -> (lean name, [arg texts], checks) or None"""
        if isinstance(st, ast.Expr) and isinstance(st.value, ast.Call):
            c = st.value
            if isinstance(c.func, ast.Attribute) and isinstance(c.func.value, ast.Name) and c.func.value.id == 'self' \
                    and c.func.attr in self.methods and not c.keywords:
                args, ch = [], []
                for a in c.args:
                    t, cc = self.num(a)
                    args.append(t)
                    ch += cc
                return self.methods[c.func.attr], args, ch
        return None

    def block(self, stmts, ind, want):
        """Lean term for the block.  want='state': the state after the block; want='safe': Bool, no partial operation
        on the executed path.  Locals assigned inside an `if` branch are not visible after it (using one later is an
        'unknown name' failure, never a guess)."""
        pad = ' ' * ind
        fin = 's' if want == 'state' else 'true'
        if not stmts:
            return fin
        st, rest = stmts[0], stmts[1:]
        if isinstance(st, ast.Pass) or (isinstance(st, ast.Expr) and isinstance(st.value, ast.Constant)
                                        and isinstance(st.value.value, str)):
            return self.block(rest, ind, want)

        def guarded(checks, body):
            if want == 'safe' and checks:
                return ' && '.join(f'({c})' for c in checks) + f' &&\n{pad}({body})' if body != 'true' \
                    else ' && '.join(f'({c})' for c in checks)
            return body

        call = self.self_call(st)
        if call:
            name, args, ch = call
            ap = ''.join(' ' + a for a in args)
            saved = dict(self.scope)
            tail = self.block(rest, ind, want)
            self.scope = saved
            body = f'let s := {name} s{ap}\n{pad}{tail}'
            if want == 'safe':
                return guarded(ch + [f'{name}.safe s{ap}'], body if tail != 'true' else 'true')
            return body
        if isinstance(st, (ast.Assign, ast.AugAssign, ast.AnnAssign)):
            if isinstance(st, ast.Assign):
                if len(st.targets) != 1:
                    fail(st, 'multiple assignment targets')
                tgt, (val, ty, ch) = st.targets[0], self.expr(st.value)
            elif isinstance(st, ast.AnnAssign):
                if st.value is None:
                    fail(st, 'annotation without value')
                tgt, (val, ty, ch) = st.target, self.expr(st.value)
            else:
                if type(st.op) not in BIN:
                    fail(st, 'augmented operator outside the subset')
                tgt = st.target
                a, ty, ca = self.expr(st.target)
                b, cb = self.num(st.value)
                if ty != 'num':
                    fail(st, 'augmented assignment to a non-number')
                ch = ca + cb + ([f'Num.nonzero {b}'] if isinstance(st.op, ast.Div) and not nonzero_literal(st.value) else [])
                val = f'({a} {BIN[type(st.op)]} {b})'
            if ty == 'prop':
                fail(st, 'assignment of a comparison result')
            if isinstance(tgt, ast.Attribute) and isinstance(tgt.value, ast.Name) and tgt.value.id == 'self':
                if self.schema is not None and tgt.attr in self.schema.ignore:
                    return self.block(rest, ind, want)
                if self.schema is None or tgt.attr not in self.schema.fields:
                    fail(st, f'assignment to self.{tgt.attr}, which is not in the schema')
                if self.schema.fields[tgt.attr] != ty:
                    fail(st, f'self.{tgt.attr} is declared {self.schema.fields[tgt.attr]}, assigned {ty}')
                bind = f'let s := {{ s with {tgt.attr} := {val} }}'
            elif isinstance(tgt, ast.Name):
                if tgt.id == 's' or tgt.id in self.ext.values():
                    fail(st, f'local name {tgt.id} clashes with a generated name')
                self.scope[tgt.id] = ty
                bind = f'let {tgt.id} := {val}'
            else:
                fail(st, 'assignment target outside the subset')
            tail = self.block(rest, ind, want)
            if want == 'safe' and tail == 'true':
                return guarded(ch, 'true')
            return guarded(ch, f'{bind}\n{pad}{tail}')
        if isinstance(st, ast.If):
            c, ch = self.cond(st.test)
            saved = dict(self.scope)
            a_state = self.block(st.body, ind + 4, 'state')
            self.scope = dict(saved)
            b_state = self.block(st.orelse, ind + 4, 'state')
            self.scope = dict(saved)
            joined = f'let s := if {c} then\n{pad}    {a_state}\n{pad}  else\n{pad}    {b_state}'
            if want == 'state':
                tail = self.block(rest, ind, want)
                return f'{joined}\n{pad}{tail}'
            a_safe = self.block(st.body, ind + 4, 'safe')
            self.scope = dict(saved)
            b_safe = self.block(st.orelse, ind + 4, 'safe')
            self.scope = dict(saved)
            tail = self.block(rest, ind, want)
            parts = []
            if not (a_safe == 'true' and b_safe == 'true'):
                parts.append(f'(if {c} then\n{pad}    {a_safe}\n{pad}  else\n{pad}    {b_safe})')
            if tail != 'true':
                parts.append(f'({joined}\n{pad}{tail})')
            body = (' &&\n' + pad).join(parts) if parts else 'true'
            return guarded(ch, body)
        fail(st, 'statement outside the subset')


# ---- locating source --------------------------------------------------------------------------------------------

def parse(relpath):
    path = os.path.join(REPO, relpath)
    return ast.parse(open(path).read(), filename=path)


def find_class(mod, name):
    for n in mod.body:
        if isinstance(n, ast.ClassDef) and n.name == name:
            return n
    raise Unsupported(f'py2lean: class {name} not found')


def find_method(mod, cls, name):
    c = find_class(mod, cls)
    for n in c.body:
        if isinstance(n, ast.FunctionDef) and n.name == name:
            return n
    raise Unsupported(f'py2lean: method {cls}.{name} not found')


def params_of(fn):
    a = fn.args
    if a.vararg or a.kwarg or a.kwonlyargs or a.posonlyargs:
        fail(fn, 'parameter kinds outside the subset')
    return [x.arg for x in a.args if x.arg != 'self']


def emit(leanname, struct, params, tr, stmts, origin):
    ps = ''.join(f' ({p} : α)' for p in params)
    saved = dict(tr.scope)
    state = tr.block(stmts, 2, 'state')
    tr.scope = dict(saved)
    safe = tr.block(stmts, 2, 'safe')
    tr.scope = dict(saved)
    return (f'/-- generated from {origin} -/\n'
            f'def {leanname} {{α : Type}} [NumX α] (s : {struct} α){ps} : {struct} α :=\n  {state}\n\n'
            f'/-- `true` iff the executed path of `{leanname}` divides by zero nowhere and evaluates no non-literal power -/\n'
            f'def {leanname}.safe {{α : Type}} [NumX α] (s : {struct} α){ps} : Bool :=\n  {safe}\n')


def method(mod, relpath, cls, name, schema, methods):
    fn = find_method(mod, cls, name)
    params = params_of(fn)
    tr = Tr(schema, params, methods=methods)
    return emit(f'{cls}.{name}', schema.name, params, tr, fn.body, f'{cls}.{name} ({relpath})')


def defaults_of(fn):
    """{param: default constant} for a constructor"""
    a = fn.args
    names = [x.arg for x in a.args]
    out = {}
    for n, d in zip(names[len(names) - len(a.defaults):], a.defaults):
        if not isinstance(d, ast.Constant):
            fail(d, 'non-literal default')
        out[n] = d.value
    return out


def constructor_defaults(mod, relpath, cls, base, schema):
    """`cls()` built with every constructor parameter at its default: run the base constructor where the body says
    `super().__init__()` (no arguments), then the remaining assignments; all values must be literals."""
    fn = find_method(mod, cls, '__init__')
    stmts = []
    consts = defaults_of(fn)
    for st in fn.body:
        if isinstance(st, ast.Expr) and isinstance(st.value, ast.Call) and isinstance(st.value.func, ast.Attribute) \
                and st.value.func.attr == '__init__' and isinstance(st.value.func.value, ast.Call) \
                and isinstance(st.value.func.value.func, ast.Name) and st.value.func.value.func.id == 'super':
            if st.value.args or st.value.keywords:
                fail(st, 'super().__init__ with arguments (the schema assumes the no-argument call)')
            bfn = find_method(mod, base, '__init__')
            btr = Tr(schema, [], consts=defaults_of(bfn))
            stmts.append((btr, bfn.body))
        else:
            stmts.append((Tr(schema, [], consts=consts), [st]))
    values = {}
    for tr, body in stmts:
        for st in body:
            if isinstance(st, ast.Expr) and isinstance(st.value, ast.Constant):
                continue
            if isinstance(st, (ast.Assign, ast.AnnAssign)):
                tgt = st.targets[0] if isinstance(st, ast.Assign) else st.target
                if not (isinstance(tgt, ast.Attribute) and isinstance(tgt.value, ast.Name) and tgt.value.id == 'self'):
                    fail(st, 'constructor statement outside the subset')
                if tgt.attr in schema.ignore:
                    continue
                if tgt.attr not in schema.fields:
                    fail(st, f'constructor assigns self.{tgt.attr}, which is not in the schema')
                val, ty, ch = tr.expr(st.value)
                if ch:
                    fail(st, 'partial operation in a constructor')
                if 's.' in val:
                    fail(st, 'constructor value depends on the object')
                if ty != schema.fields[tgt.attr]:
                    fail(st, f'self.{tgt.attr} is declared {schema.fields[tgt.attr]}, assigned {ty}')
                values[tgt.attr] = val
            else:
                fail(st, 'constructor statement outside the subset')
    missing = [f for f in schema.fields if f not in values]
    if missing:
        raise Unsupported(f'py2lean: {cls}.__init__ does not assign {missing}')
    body = ',\n    '.join(f'{f} := {values[f]}' for f in schema.fields)
    return (f'/-- generated from `{cls}.__init__` with every parameter at its default ({relpath}) -/\n'
            f'def {cls}.defaults {{α : Type}} [NumX α] : {schema.name} α :=\n  {{ {body} }}\n')


# ---- fragments of TCPPacketGenerator ----------------------------------------------------------------------------

def is_self_attr(e, attr):
    return isinstance(e, ast.Attribute) and e.attr == attr and isinstance(e.value, ast.Name) and e.value.id == 'self'


def assigns_self(st, attr):
    if isinstance(st, ast.Assign):
        return any(is_self_attr(t, attr) for t in st.targets)
    if isinstance(st, (ast.AugAssign, ast.AnnAssign)):
        return is_self_attr(st.target, attr)
    return False


def estimator_fragment(mod, relpath, schema):
    """in `TCPPacketGenerator.put`: the statements of the `if self.dupack == 0:` block from its start up to and
    including the assignment to `self.rto` (sample, error, smoothed RTT, deviation, RTO)."""
    fn = find_method(mod, 'TCPPacketGenerator', 'put')
    blocks = [n for n in ast.walk(fn) if isinstance(n, ast.If) and isinstance(n.test, ast.Compare)
              and is_self_attr(n.test.left, 'dupack') and isinstance(n.test.ops[0], ast.Eq)
              and isinstance(n.test.comparators[0], ast.Constant) and n.test.comparators[0].value == 0]
    if len(blocks) != 1:
        raise Unsupported('py2lean: expected exactly one `if self.dupack == 0:` block in TCPPacketGenerator.put')
    body = blocks[0].body
    idx = [i for i, st in enumerate(body) if assigns_self(st, 'rto')]
    if len(idx) != 1:
        raise Unsupported('py2lean: expected exactly one assignment to self.rto in the new-ACK block of put')
    frag = body[:idx[0] + 1]
    first = frag[0]
    if not (isinstance(first, ast.Assign) and isinstance(first.targets[0], ast.Name) and first.targets[0].id == 'sample_rtt'):
        raise Unsupported('py2lean: the new-ACK block of put no longer starts with `sample_rtt = …`')
    ext = {'self.env.now': 'now', 'ack.time': 'ack_time'}
    tr = Tr(schema, ['now', 'ack_time'], ext=ext)
    est = emit('TCPPacketGenerator.put_estimator', schema.name, ['now', 'ack_time'], tr, frag,
               f'TCPPacketGenerator.put, new-ACK block up to `self.rto = …` ({relpath})')
    tr2 = Tr(None, ['now', 'ack_time'], ext=ext)
    val, ty, ch = tr2.expr(first.value)
    if ty != 'num' or ch:
        fail(first, 'sample_rtt expression outside the subset')
    smp = (f'/-- generated from `sample_rtt = …` in TCPPacketGenerator.put ({relpath}) -/\n'
           f'def TCPPacketGenerator.put_sample_rtt {{α : Type}} [NumX α] (now : α) (ack_time : α) : α :=\n  {val}\n')
    return smp + '\n' + est


def backoff_fragment(mod, relpath, schema):
    """in `TCPPacketGenerator.timeout_callback`: the assignments to `self.rto` (the exponential back-off)"""
    fn = find_method(mod, 'TCPPacketGenerator', 'timeout_callback')
    frag = [st for st in fn.body if assigns_self(st, 'rto')]
    if not frag:
        raise Unsupported('py2lean: TCPPacketGenerator.timeout_callback no longer assigns self.rto (no RTO back-off)')
    tr = Tr(schema, [])
    return emit('TCPPacketGenerator.timeout_backoff', schema.name, [], tr, frag,
                f'TCPPacketGenerator.timeout_callback, assignments to self.rto ({relpath})')


def init_rto_fragment(mod, relpath, schema):
    fn = find_method(mod, 'TCPPacketGenerator', '__init__')
    frag = [st for st in fn.body if assigns_self(st, 'rto')]
    if len(frag) != 1:
        raise Unsupported('py2lean: expected one assignment to self.rto in TCPPacketGenerator.__init__')
    tr = Tr(schema, [])
    return emit('TCPPacketGenerator.init_rto', schema.name, [], tr, frag,
                f'TCPPacketGenerator.__init__, assignment to self.rto ({relpath})')


def send_guard_fragment(mod, relpath):
    """in `TCPPacketGenerator.run`: the test of the `if` whose body builds and sends the next `Packet(...)`"""
    fn = find_method(mod, 'TCPPacketGenerator', 'run')

    def builds_packet(n):
        return any(isinstance(st, ast.Assign) and isinstance(st.value, ast.Call) and isinstance(st.value.func, ast.Name)
                   and st.value.func.id == 'Packet' for st in n.body)
    ifs = [n for n in ast.walk(fn) if isinstance(n, ast.If) and builds_packet(n)]
    if len(ifs) != 1:
        raise Unsupported('py2lean: expected exactly one `if` that builds a Packet in TCPPacketGenerator.run')
    names = ['next_seq', 'mss', 'send_buffer', 'last_ack', 'cwnd']
    ext = {'self.next_seq': 'next_seq', 'self.mss': 'mss', 'self.send_buffer': 'send_buffer',
           'self.last_ack': 'last_ack', 'self.congestion_control.cwnd': 'cwnd'}
    tr = Tr(None, names, ext=ext)
    c, ch = tr.cond(ifs[0].test)
    if ch:
        fail(ifs[0].test, 'partial operation in the send guard')
    ps = ''.join(f' ({p} : α)' for p in names)
    # the size of the packet built under the guard and the advance of next_seq
    size_kw = None
    for st in ifs[0].body:
        if isinstance(st, ast.Assign) and isinstance(st.value, ast.Call) and getattr(st.value.func, 'id', '') == 'Packet':
            for k in st.value.keywords:
                if k.arg == 'size':
                    size_kw = k.value
                if k.arg == 'packet_id' and not is_self_attr(k.value, 'next_seq'):
                    fail(k.value, 'the new packet is no longer numbered self.next_seq')
    if size_kw is None or not is_self_attr(size_kw, 'mss'):
        raise Unsupported('py2lean: the new packet in run is no longer built with size=self.mss')
    adv = [st for st in ifs[0].body if assigns_self(st, 'next_seq')]
    ok = len(adv) == 1 and isinstance(adv[0], ast.AugAssign) and isinstance(adv[0].op, ast.Add) \
        and dotted(adv[0].value) == 'packet.size'
    if not ok:
        raise Unsupported('py2lean: run no longer advances next_seq by `+= packet.size` under the send guard')
    return (f'/-- generated from the test of the sending `if` in TCPPacketGenerator.run ({relpath}); the translator also\n'
            f'checked that the packet built under it has `size=self.mss`, `packet_id=self.next_seq` and that\n'
            f'`self.next_seq += packet.size` follows -/\n'
            f'def TCPPacketGenerator.run_send_guard {{α : Type}} [NumX α]{ps} : Bool :=\n  decide {c}\n')


def stale_guard_fragment(mod, relpath):
    """in `TCPPacketGenerator.put`: the test of the early return on an acknowledgement that a later cumulative one has overtaken
    (`if ackno < self.last_ack: return`).  Shape checked: the method opens with the `assert` and `ackno = ack.ack`; exactly one
    `if <test>: return` (no `else`) stands between that assignment and the first statement that touches `self.dupack`, nothing else
    does, and the test reads only `ackno` and `self.last_ack`."""
    fn = find_method(mod, 'TCPPacketGenerator', 'put')
    body = [st for st in fn.body if not (isinstance(st, ast.Expr) and isinstance(st.value, ast.Constant))]

    def touches_dupack(st):
        return any(is_self_attr(n, 'dupack') for n in ast.walk(st))
    first_dup = next((i for i, st in enumerate(body) if touches_dupack(st)), None)
    if first_dup is None:
        raise Unsupported('py2lean: TCPPacketGenerator.put no longer counts duplicate ACKs in self.dupack')
    head = body[:first_dup]
    is_ackno = [i for i, st in enumerate(head) if isinstance(st, ast.Assign) and len(st.targets) == 1
                and isinstance(st.targets[0], ast.Name) and st.targets[0].id == 'ackno' and dotted(st.value) == 'ack.ack']
    if len(is_ackno) != 1:
        raise Unsupported('py2lean: put no longer starts with `ackno = ack.ack` before the duplicate-ACK counting')
    for st in head[:is_ackno[0]]:
        if not isinstance(st, ast.Assert):
            fail(st, 'statement other than the `assert` before `ackno = ack.ack` in put')
    between = head[is_ackno[0] + 1:]
    guards = [st for st in between if isinstance(st, ast.If) and not st.orelse and len(st.body) == 1
              and isinstance(st.body[0], ast.Return) and st.body[0].value is None]
    if len(guards) != 1 or len(between) != 1:
        raise Unsupported('py2lean: expected exactly one early `if …: return` (the overtaken-ACK guard) between `ackno = ack.ack` '
                          f'and the duplicate-ACK counting of TCPPacketGenerator.put, found {len(guards)} among {len(between)} statement(s)')
    names = ['ackno', 'last_ack']
    tr = Tr(None, ['ackno'], ext={'self.last_ack': 'last_ack'})
    c, ch = tr.cond(guards[0].test)
    if ch:
        fail(guards[0].test, 'partial operation in the overtaken-ACK guard')
    ps = ''.join(f' ({p} : α)' for p in names)
    return (f'/-- generated from the test of the early `if …: return` of TCPPacketGenerator.put ({relpath}): an acknowledgement\n'
            f'overtaken by a later cumulative one is ignored; the translator also checked that it stands right after\n'
            f'`ackno = ack.ack`, before anything touches `self.dupack`, and that its body is a bare `return` -/\n'
            f'def TCPPacketGenerator.put_stale_guard {{α : Type}} [NumX α]{ps} : Bool :=\n  decide {c}\n')


# ---- what is generated ------------------------------------------------------------------------------------------

TCP_SRC = 'onl/packet/tcp_generator.py'

CC_SCHEMA = Schema('CCState', [
    ('mss', 'num'), ('cwnd', 'num'), ('ssthresh', 'num'),
    ('W_last_max', 'num'), ('epoch_start', 'num'), ('origin_point', 'num'), ('d_min', 'num'), ('W_tcp', 'num'),
    ('K', 'num'), ('ack_cnt', 'num'), ('tcp_friendliness', 'bool'), ('fast_convergence', 'bool'),
    ('beta', 'num'), ('C', 'num'), ('cwnd_cnt', 'num'), ('cnt', 'num')],
    ignore=['debug'],
    doc='fields of `CongestionControl` / `TCPReno` / `TCPCubic` objects (hand-written schema; Reno uses the first three)')

EST_SCHEMA = Schema('RttEst', [('rtt_estimate', 'num'), ('est_deviation', 'num'), ('rto', 'num')],
                    doc='the round-trip estimator fields of `TCPPacketGenerator` (hand-written schema)')

CC_METHODS = [
    ('CongestionControl', 'timer_expired'), ('CongestionControl', 'dupack_over'),
    ('CongestionControl', 'consecutive_dupacks_received'), ('CongestionControl', 'more_dupacks_received'),
    ('TCPReno', 'ack_received'),
    ('TCPCubic', 'cubic_reset'), ('TCPCubic', 'cubic_tcp_friendliness'), ('TCPCubic', 'cubic_update'),
    ('TCPCubic', 'timer_expired'), ('TCPCubic', 'ack_received'),
]

TRANSLATED = [f'{c}.{m}' for c, m in CC_METHODS] + [
    'TCPCubic.__init__ (defaults)', 'TCPPacketGenerator.put (estimator block)', 'TCPPacketGenerator.put (sample_rtt)',
    'TCPPacketGenerator.timeout_callback (RTO back-off)', 'TCPPacketGenerator.__init__ (initial RTO)',
    'TCPPacketGenerator.run (send guard)', 'TCPPacketGenerator.put (early return on an overtaken ACK)']


def generate_tcpcc():
    mod = parse(TCP_SRC)
    out = ['import OnlVerif.Tcp.NumX',
           '/-!\n# GENERATED by py2lean/translate.py from ' + TCP_SRC + ' - do not edit\n\n'
           'Regenerated from the current source on every `./check C16` / `./check C17`; the theorems of\n'
           '`Props/C17.lean` are about these definitions.\n-/\nset_option linter.unusedVariables false\n',
           CC_SCHEMA.lean(), EST_SCHEMA.lean()]
    for cls, name in CC_METHODS:
        # a method of `self` resolves to the definition of the class itself, else to the base class
        own = {n.name for n in find_class(mod, cls).body if isinstance(n, ast.FunctionDef)}
        base = {n.name for n in find_class(mod, 'CongestionControl').body if isinstance(n, ast.FunctionDef)}
        methods = {m: f'CongestionControl.{m}' for m in base if (('CongestionControl', m) in CC_METHODS)}
        methods.update({m: f'{cls}.{m}' for m in own if (cls, m) in CC_METHODS})
        out.append(method(mod, TCP_SRC, cls, name, CC_SCHEMA, methods))
    bases = [dotted(b) for b in find_class(mod, 'TCPCubic').bases]
    if bases != ['CongestionControl']:
        raise Unsupported(f'py2lean: TCPCubic bases changed: {bases}')
    out.append(constructor_defaults(mod, TCP_SRC, 'TCPCubic', 'CongestionControl', CC_SCHEMA))
    out.append(estimator_fragment(mod, TCP_SRC, EST_SCHEMA))
    out.append(backoff_fragment(mod, TCP_SRC, EST_SCHEMA))
    out.append(init_rto_fragment(mod, TCP_SRC, EST_SCHEMA))
    out.append(send_guard_fragment(mod, TCP_SRC))
    out.append(stale_guard_fragment(mod, TCP_SRC))
    return '\n'.join(out)


TARGETS = {os.path.join('OnlVerif', 'Generated', 'TcpCC.lean'): generate_tcpcc}


def all_targets():
    """every generated file: {path relative to lean/: generator}; the element targets live in `py2lean/elements.py`, the kernel
    targets in `py2lean/kernel.py`, those of C13 / C19 / C20 in `py2lean/more.py`"""
    from py2lean import elements, kernel, more
    t = dict(TARGETS)
    t.update(elements.TARGETS)
    t.update(kernel.TARGETS)
    t.update(more.TARGETS)
    return t


PINNED = os.path.join(os.path.dirname(os.path.abspath(__file__)), 'pinned')


FAILED = {}          # file stem -> message of the translator failure of the last `regenerate_all` (the file on disk was kept)


def regenerate_all(only=None, pin=False, tolerate=False):
    """rewrite lean/OnlVerif/Generated/*.lean from the current source (atomically, and only the files whose text
    changed, so an unchanged source costs no rebuild); returns the list of files that changed.  `only`: file stems
    (e.g. `('Port',)`) to restrict the run to - a check regenerates the files its own theorems are about (`py2lean/SCOPE.md`).
    `pin=True` also stores the text under `py2lean/pinned/` (the translation of the pinned tree, for `diff_vs_pinned`).
    A target whose source left the translatable subset keeps its previous file and does not stop the others; when all
    targets have been tried, `Unsupported` is raised with the messages of the failed ones (unless `tolerate`: the
    failures are then only recorded in `FAILED`)."""
    changed = []
    FAILED.clear()
    for rel, gen in all_targets().items():
        stem = os.path.splitext(os.path.basename(rel))[0]
        if only is not None and stem not in only:
            continue
        try:
            text = gen()
        except Unsupported as x:
            FAILED[stem] = str(x)
            continue
        except (SyntaxError, AttributeError, IndexError, KeyError, TypeError, ValueError, OSError) as x:
            # a source that no longer parses / has lost the class or method the generator reaches for
            FAILED[stem] = f'py2lean: {stem}: {x!r}'
            continue
        path = os.path.join(LEAN, rel)
        old = open(path).read() if os.path.exists(path) else None
        if old != text:
            os.makedirs(os.path.dirname(path), exist_ok=True)
            tmp = f'{path}.{os.getpid()}.tmp'
            with open(tmp, 'w') as f:
                f.write(text)
            os.replace(tmp, path)
            changed.append(rel)
        if pin:
            os.makedirs(PINNED, exist_ok=True)
            with open(os.path.join(PINNED, stem + '.lean'), 'w') as f:
                f.write(text)
    if FAILED and not tolerate:
        raise Unsupported(' ;; '.join(f'[{k}] {v}' for k, v in FAILED.items()))
    return changed


def diff_vs_pinned(stem, limit=40):
    """changed lines of Generated/<stem>.lean against the translation of the pinned tree (empty on the unchanged tree)"""
    import difflib
    pinned = os.path.join(PINNED, stem + '.lean')
    cur = os.path.join(LEAN, 'OnlVerif', 'Generated', stem + '.lean')
    if not (os.path.exists(pinned) and os.path.exists(cur)):
        return []
    return [l for l in difflib.unified_diff(open(pinned).read().splitlines(), open(cur).read().splitlines(), 'pinned',
                                            'generated', lineterm='', n=0) if not l.startswith(('---', '+++', '@@'))][:limit]


if __name__ == '__main__':
    import sys
    print(regenerate_all(pin='--pin' in sys.argv))
