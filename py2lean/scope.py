"""Who owns which generated file (`py2lean/SCOPE.md` is the prose version of this table).

A *generated file* `lean/OnlVerif/Generated/<stem>.lean` is re-derived from the library source.  Its **owners** are the properties
whose text constrains the code it is translated from: only their checks regenerate it as an obligation (`prepare`), only their
bridge modules import it, and only they report a translator failure or a bridge theorem that no longer compiles.  A **user** runs
the file as part of an executable model without owning the rules in it (C16 runs the congestion control that C17 owns): it
refreshes the file best-effort and never reports a failure of it.  For every other check the file is **foreign**: if a foreign
(or merely used) file is in the way of a build - it is ill-typed, or hand-written code that depends on it no longer compiles -
the check falls back to the pinned copy `py2lean/pinned/<stem>.lean` (the translation of the pinned tree) and says so in its
evidence; the failure is reported by the owners only.  The compiled `driver` links `Route` and `TcpCC`, so this is what keeps a
change in `demux.py` or `tcp_generator.py` from taking all 20 checks down."""
import os, re

from vlib.util import LEAN

HERE = os.path.dirname(os.path.abspath(__file__))
PINNED = os.path.join(HERE, 'pinned')
GEN = os.path.join(LEAN, 'OnlVerif', 'Generated')

OWNERS = {
    'KernelObj': (),                       # object schemas: nothing in it is derived from the source
    'KernelSched01': ('C01',),
    'KernelEvent02': ('C02',),
    'KernelRun03': ('C03',),
    'KernelProc04': ('C04',),
    'KernelCond': ('C05',),
    'KernelRes6': ('C06',),
    'KernelRes7': ('C07',),
    'KernelCancel': ('C06', 'C07'),
    'Port': ('C09',),
    'Wire': ('C10',),
    'Bucket': ('C11',),
    'SchedTx': ('C12',),
    'Sched': ('C14',),
    'Drr': ('C15',),
    'Sink': ('C16',),
    'TcpCC': ('C17',),
    'Route': ('C18',),
    'Sp13': ('C13',),
    'Timer19': ('C19',),
    'Rt20': ('C20',),
}
USERS = {'TcpCC': ('C16',)}               # runs it inside the closed-loop model, does not own the window rules
DRIVER_DEPS = ('Route', 'TcpCC')           # generated files linked into the compiled driver (every check builds it)

# bridge modules (besides Props/<Cnn>.lean itself) per check, for the import-closure test of tools/scope_audit.py
BRIDGE_MODULES = {
    'C01': ('OnlVerif.Props.KernelGen01',), 'C02': ('OnlVerif.Props.KernelGen02',), 'C03': ('OnlVerif.Props.KernelGen03',),
    'C04': ('OnlVerif.Props.KernelGen04',), 'C05': ('OnlVerif.Props.KernelGen05',),
    'C06': ('OnlVerif.Props.KernelGen06', 'OnlVerif.Props.KernelGenCancel'),
    'C07': ('OnlVerif.Props.KernelGen07', 'OnlVerif.Props.KernelGenCancel'),
}


def owned_by(prop):
    return tuple(s for s, o in OWNERS.items() if prop in o)


def is_foreign(stem, prop):
    """`stem` is neither owned by `prop` nor independent of the source"""
    return bool(OWNERS.get(stem, ())) and prop not in OWNERS.get(stem, ())


def imports(mod):
    p = os.path.join(LEAN, *mod.split('.')) + '.lean'
    if not os.path.exists(p):
        return []
    return [m for m in re.findall(r'^import\s+(\S+)', open(p).read(), re.M) if m.startswith('OnlVerif') or m == 'Driver']


def closure(mods):
    """the modules of this package that `mods` import, transitively"""
    seen, st = set(), list(mods)
    while st:
        m = st.pop()
        if m not in seen:
            seen.add(m)
            st += imports(m)
    return seen


def generated_in(mods):
    """stems of the generated files in the import closure of `mods`"""
    return sorted(m.split('.')[-1] for m in closure(mods) if m.startswith('OnlVerif.Generated.'))


def differs_from_pinned(stem):
    cur, pin = os.path.join(GEN, stem + '.lean'), os.path.join(PINNED, stem + '.lean')
    if not os.path.exists(pin):
        return False
    return not os.path.exists(cur) or open(cur).read() != open(pin).read()


def restore_pinned(stems):
    """overwrite `Generated/<stem>.lean` by its pinned copy where the two differ; returns the stems rewritten"""
    done = []
    for stem in stems:
        if differs_from_pinned(stem):
            cur, pin = os.path.join(GEN, stem + '.lean'), os.path.join(PINNED, stem + '.lean')
            tmp = f'{cur}.{os.getpid()}.tmp'
            with open(tmp, 'w') as f:
                f.write(open(pin).read())
            os.replace(tmp, cur)
            done.append(stem)
    return done


def restore_foreign(prop, targets):
    """fall back to the pinned copy of every generated file in the import closure of the build `targets` that `prop` does not own
    (foreign files and files it merely uses); returns the stems rewritten"""
    return restore_pinned([s for s in generated_in(targets) if is_foreign(s, prop)])


def restore_own_driver_deps(prop, targets=('Driver',)):
    """for the driver build of an owner whose own freshly generated driver dependency does not compile: the pinned copy, so that the
    harness still has a driver to run its direct oracles against (the failure itself has been recorded)"""
    return restore_pinned([s for s in generated_in(targets) if s in DRIVER_DEPS and prop in OWNERS.get(s, ())])
