"""py2lean for network elements: a *typed* translator for the pure decision logic of `Port`, `REDPort`, `WFQ`, `VC`,
`TokenBucket`, `TwoRateTokenBucket`, `Wire`, `DRR` (methods and named fragments of generator methods).

Differences from `translate.Tr` (which serves the all-float TCP window code):

* values are typed: `num` (the scalar α, a Python float or a number used as one), `int` (a Python int: counters,
  sizes, limits; Lean `Int`), `nat` (a Python int used as a non-negative exponent), `bool`, `optint`/`optnum`
  (`None` or a number), `truthy` (an object consulted only through `if x:`; Lean `Bool`).  `int` operands of a mixed
  operation, of `/`, or of a comparison with a `num` are coerced with `Num.ofInt` - what CPython does for ints below 2^53;
* `x is None` / `x is not None` / `if x:` on an optional value is a `match` that *narrows* the value in its branch; an
  optional value used as a number without such a test is `Unsupported` (Python would raise `TypeError` on `None`);
* `return` and locals assigned inside an `if` are supported by continuing every branch separately;
* calls that are *effects* (`self.store.put(packet)`, `self.out.put(packet)`, `packet.perhop_time[…] = now`, …) are declared
  per class as patterns; each becomes a counter field of the generated structure (`eff_…`), optionally with the value it
  carried, so that "the accepted branch still calls `self.store.put(packet)`" is part of the generated definition;
* external quantities (`self.env.now`, `packet.size`, `len(self.store.items)`, one `random.uniform(0, 1)` draw) are typed
  parameters; a second draw on one path is `Unsupported`;
* dict fields indexed by the class of the packet are translated *per class*: `self.finish_times[class_id]` is the scalar
  field `finish_times` of the generated structure (the entry of the class in hand);
* `if self.debug: print(…)`, `print(…)`, `self.dprint(…)`, docstrings are ignored.

Every function `C.m` comes with `C.m.safe : … → Bool`, `true` iff the executed path divides by no zero.
Anything outside the subset raises `Unsupported`: the translator never guesses.
"""
import ast, os

from py2lean.translate import Unsupported, fail, dotted, parse, find_class, find_method, params_of, nonzero_literal, \
    is_self_attr, assigns_self
from fractions import Fraction

NUMERIC = ('num', 'int')
LEAN_TY = {'num': 'α', 'int': 'Int', 'nat': 'Nat', 'bool': 'Bool', 'truthy': 'Bool', 'optint': 'Option Int',
           'optnum': 'Option α', 'effect': 'Nat', 'dictnum': 'α', 'dictint': 'Int', 'dictoptint': 'Option Int',
           'listnum': 'List α', 'listflagnum': 'List (Bool × α)', 'flag': 'Nat'}
RAISED = {'AssertionError': 1, 'ValueError': 2, 'TypeError': 3, 'KeyError': 4}     # values of a `raised : flag` field (0 = nothing raised)
RESERVED = {'s', 'at', 'from', 'end', 'then', 'else', 'fun', 'let', 'have', 'show', 'do', 'match', 'with', 'if', 'in',
            'open', 'def', 'theorem', 'where', 'by', 'Type', 'Prop', 'α', 'true', 'false', 'some', 'none'}


class Schema:
    """Lean structure for the Python object: ordered fields name -> type (see module doc), `ignore` = attributes the
    methods may assign or test that carry no modelled state, `doc` goes into the generated file."""

    def __init__(self, name, fields, ignore=(), doc=''):
        self.name, self.fields, self.ignore, self.doc = name, dict(fields), set(ignore), doc

    def lean(self):
        out = [f'/-- {self.doc} -/', f'structure {self.name} (α : Type) where']
        for f, t in self.fields.items():
            out.append(f'  {f} : {LEAN_TY[t]}')
        return '\n'.join(out) + '\n'


class Effect:
    """a statement that is an effect.  `match(tr, stmt)` returns None (not this effect) or a list of
    (field, lean value text, type, checks) updates to perform *besides* counting it in `eff_<name>`."""

    def __init__(self, name, match):
        self.name, self.match = name, match


# ---- intermediate form: a tree of paths, rendered twice (state / safe) ------------------------------------------

class End:
    pass


class Let:
    def __init__(self, var, val, checks, rest):
        self.var, self.val, self.checks, self.rest = var, val, checks, rest


class Ite:           # both branches carry their own continuation
    def __init__(self, cond, checks, a, b):
        self.cond, self.checks, self.a, self.b = cond, checks, a, b


class Join:          # `let s := if c then A else B` followed by the common continuation
    def __init__(self, cond, checks, a, b, rest):
        self.cond, self.checks, self.a, self.b, self.rest = cond, checks, a, b, rest


class Match:         # match on an optional value; `var` is bound to the number in the `some` branch
    def __init__(self, scrut, var, some, none, checks=()):
        self.scrut, self.var, self.some, self.none, self.checks = scrut, var, some, none, list(checks)


def conj(parts):
    parts = [p for p in parts if p != 'true']
    if not parts:
        return 'true'
    if len(parts) == 1:
        return parts[0]
    return ' && '.join(f'({p})' for p in parts)


STATE_TYPE = ['']      # ' : <Schema> α' while rendering a schema none of whose fields mentions α (Lean cannot infer α otherwise)


def phantom(schema):
    return not any('α' in LEAN_TY[t] for t in schema.fields.values())


def render(n, ind, want):
    pad = ' ' * ind
    if isinstance(n, End):
        return 's' if want == 'state' else 'true'
    if isinstance(n, Let):
        tail = render(n.rest, ind, want)
        ann = STATE_TYPE[0] if n.var == 's' else ''
        if want == 'state':
            return f'let {n.var}{ann} := {n.val}\n{pad}{tail}'
        body = 'true' if tail == 'true' else f'let {n.var}{ann} := {n.val}\n{pad}{tail}'
        return conj(list(n.checks) + [body])
    if isinstance(n, Ite):
        a, b = render(n.a, ind + 4, want), render(n.b, ind + 4, want)
        if want == 'state':
            return f'if {n.cond} then\n{pad}    {a}\n{pad}  else\n{pad}    {b}'
        body = 'true' if (a == 'true' and b == 'true') else f'if {n.cond} then\n{pad}    {a}\n{pad}  else\n{pad}    {b}'
        return conj(list(n.checks) + [body])
    if isinstance(n, Join):
        a, b = render(n.a, ind + 4, 'state'), render(n.b, ind + 4, 'state')
        joined = f'let s{STATE_TYPE[0]} := if {n.cond} then\n{pad}    {a}\n{pad}  else\n{pad}    {b}'
        tail = render(n.rest, ind, want)
        if want == 'state':
            return f'{joined}\n{pad}{tail}'
        sa, sb = render(n.a, ind + 4, 'safe'), render(n.b, ind + 4, 'safe')
        parts = list(n.checks)
        if not (sa == 'true' and sb == 'true'):
            parts.append(f'if {n.cond} then\n{pad}    {sa}\n{pad}  else\n{pad}    {sb}')
        if tail != 'true':
            parts.append(f'{joined}\n{pad}{tail}')
        return conj(parts)
    if isinstance(n, Match):
        a, b = render(n.some, ind + 4, want), render(n.none, ind + 4, want)
        body = f'match {n.scrut} with\n{pad}  | some {n.var} =>\n{pad}    {a}\n{pad}  | none =>\n{pad}    {b}'
        if want == 'state':
            return body
        if a == 'true' and b == 'true':
            body = 'true'
        return conj(list(n.checks) + [body])
    raise AssertionError(n)


# ---- the translator ---------------------------------------------------------------------------------------------

class ETr:
    """translation of one function body or fragment.

    schema   : Schema of `self`
    params   : {lean parameter name: type}  (in scope as numbers)
    ext      : {python expression text (ast.unparse): (lean parameter name, type)}  external quantities
    draw     : (python expression text, lean parameter name) of the random draw, or None
    keys     : names of locals that denote *the class in hand* (index of per-class dict fields)
    key_exprs: python expression texts; `k = <such an expression>` makes the local `k` such a name
    methods  : {python method name on self: lean function name} (translated methods callable as statements)
    effects  : [Effect]
    ignore_calls : python call heads that are ignored as statements (`print`, `self.dprint`)
    loops    : [callable(tr, for_stmt) -> list of ('let', var, val, checks) or None]  recognised loop shapes
    """

    def __init__(self, schema, params=None, ext=None, draw=None, keys=(), methods=None, effects=(), loops=(),
                 ignore_calls=('print', 'self.dprint'), key_exprs=(), draws=None, strings=None, consts=None, views=None):
        self.schema = schema
        self.scope = dict(params or {})          # local/param name -> type
        self.ext = dict(ext or {})
        self.draws = dict(draws or {})            # python expression text of a random input -> lean parameter
        if draw:
            self.draws[draw[0]] = draw[1]
        self.drawn = set()                        # draws consumed on the current path
        self.strings = dict(strings or {})        # string literal -> int code (e.g. colours)
        self.consts = dict(consts or {})          # python expression text -> literal (class constants such as `self.MIN_QUANTUM`)
        self.views = dict(views or {})            # python expression text (read or assigned) -> schema field that stands for it
        self.yield_index = {}                     # id(yield statement) -> number (source order), set by `emit_generator`
        self.after = {}                           # yield number -> the statements that follow it (its continuation)
        self.poison_at = {}                       # yield number -> locals bound when it suspends (stale afterwards)
        self.poison = set()                       # names that must not be read in this fragment
        self.param_names = set(self.scope)
        self.aliases = set()                      # locals that alias an external quantity (`now = env.now`)
        self.keys = set(keys)
        self.key_exprs = set(key_exprs)       # `k = <one of these>` declares the local k to be the class in hand
        self.methods = dict(methods or {})
        self.effects = list(effects)
        self.loops = list(loops)
        self.ignore_calls = set(ignore_calls)
        self.narrow = {}                          # python expression text -> (lean text, type) after a None test
        self.facts = {}                           # python expression text -> 'truthy' | 'number' | 'falsy' | 'none' (what the tests passed so far say)
        self.used_effects = set()

    def bind(self, params):
        """the Lean parameters of the definition being emitted: only these are in scope, only external quantities
        bound to one of them may be mentioned (anything else is `Unsupported`, never an unbound Lean name)"""
        names = dict(params)
        self.param_names = set(names)
        self.scope = dict(names)
        self.ext = {k: v for k, v in self.ext.items() if v[0] in names}
        self.draws = {k: v for k, v in self.draws.items() if v in names}

    # -- bookkeeping of path-local facts
    def save(self):
        return dict(self.scope), dict(self.narrow), set(self.drawn), set(self.keys), dict(self.facts)

    def restore(self, st):
        self.scope, self.narrow, self.drawn, self.keys, self.facts = dict(st[0]), dict(st[1]), set(st[2]), set(st[3]), dict(st[4])

    # -- literals
    def const(self, node, v):
        if isinstance(v, bool):
            return ('true' if v else 'false'), 'bool', []
        if isinstance(v, int):
            return (f'({v} : Int)' if v >= 0 else f'(-{-v} : Int)'), 'int', []
        if isinstance(v, float):
            fr = Fraction(repr(v))
            if float(fr.numerator) / float(fr.denominator) != v or abs(fr.numerator) >= 2 ** 53 or fr.denominator >= 2 ** 53:
                fail(node, 'float literal that is not the correctly rounded quotient of two small integers')
            p, q = abs(fr.numerator), fr.denominator
            body = f'(Num.ofNat {p} : α)' if q == 1 else f'((Num.ofNat {p} : α) / Num.ofNat {q})'
            return (f'(-{body})' if fr < 0 else body), 'num', []
        if v is None:
            return 'none', 'none', []
        if isinstance(v, str) and v in self.strings:
            return f'({self.strings[v]} : Int)', 'int', []
        fail(node, f'literal of type {type(v).__name__}')

    def to_num(self, e, t, ty):
        """coerce an int-typed term to the scalar"""
        if ty == 'num':
            return t
        if ty == 'int':
            if isinstance(e, ast.Constant) and isinstance(e.value, int) and not isinstance(e.value, bool):
                return f'(Num.ofNat {e.value} : α)' if e.value >= 0 else f'(-(Num.ofNat {-e.value} : α))'
            return f'(Num.ofInt {t} : α)'
        fail(e, f'a number is required here, got {ty}')

    def number(self, e):
        t, ty, ch = self.expr(e)
        if ty not in NUMERIC:
            if ty in ('optint', 'optnum', 'dictoptint', 'none'):
                fail(e, 'a value that may be None is used as a number without an `is None` test before it')
            fail(e, f'a number is required here, got {ty}')
        return t, ty, ch

    def num(self, e):
        t, ty, ch = self.number(e)
        return self.to_num(e, t, ty), ch

    # -- expressions: (lean text, type, [safety checks])
    def expr(self, e):
        key = ast.unparse(e)
        if key in self.narrow:
            t, ty = self.narrow[key]
            return t, ty, []
        if key in self.consts:
            return self.const(e, self.consts[key])
        if key in self.views:
            f = self.views[key]
            ty = self.schema.fields[f]
            return f's.{f}', ('bool' if ty == 'truthy' else ty), []
        if key in self.draws:
            if key in self.drawn:
                fail(e, f'a second `{key}` on one path (the model hands out one such input per burst)')
            self.drawn.add(key)
            return self.draws[key], 'num', []
        if key in self.ext:
            n, ty = self.ext[key]
            return n, ty, []
        if isinstance(e, ast.Attribute):
            if isinstance(e.value, ast.Name) and e.value.id == 'self':
                if e.attr not in self.schema.fields:
                    fail(e, f'attribute self.{e.attr} is not in the schema')
                ty = self.schema.fields[e.attr]
                if ty.startswith('dict') or ty == 'effect':
                    fail(e, f'self.{e.attr} used as a value')
                return f's.{e.attr}', ('bool' if ty == 'truthy' else ty), []
            fail(e, 'attribute of something other than self (not declared external)')
        if isinstance(e, ast.Subscript):
            if isinstance(e.value, ast.Attribute) and isinstance(e.value.value, ast.Name) and e.value.value.id == 'self' \
                    and isinstance(e.slice, ast.Name) and e.slice.id in self.keys:
                f = e.value.attr
                ty = self.schema.fields.get(f)
                if ty == 'dictnum':
                    return f's.{f}', 'num', []
                if ty == 'dictint':
                    return f's.{f}', 'int', []
                if ty == 'dictoptint':
                    fail(e, f'self.{f}[…] may raise KeyError (the entry may be missing)')
            fail(e, 'subscript outside the subset (only per-class dict fields indexed by the class in hand)')
        if isinstance(e, ast.Name):
            if e.id in self.poison:
                fail(e, f'local {e.id} is read after a `yield` that it was bound before (its value is not part of the state)')
            if e.id in self.scope:
                return e.id, self.scope[e.id], []
            fail(e, f'unknown name {e.id}')
        if isinstance(e, ast.Constant):
            return self.const(e, e.value)
        if isinstance(e, ast.UnaryOp) and isinstance(e.op, ast.USub):
            t, ty, ch = self.number(e.operand)
            return f'(-{t})', ty, ch
        if isinstance(e, ast.UnaryOp) and isinstance(e.op, ast.Not):
            t, ch = self.cond(e.operand)
            return f'(¬ {t})', 'prop', ch
        if isinstance(e, ast.BoolOp):
            parts = [self.cond(v) for v in e.values]
            op = ' ∧ ' if isinstance(e.op, ast.And) else ' ∨ '
            # Python short-circuits; operands of the subset have no side effects; all safety checks are kept
            return '(' + op.join(p[0] for p in parts) + ')', 'prop', [c for p in parts for c in p[1]]
        if isinstance(e, ast.BinOp):
            if isinstance(e.op, (ast.Add, ast.Sub, ast.Mult)):
                sym = {ast.Add: '+', ast.Sub: '-', ast.Mult: '*'}[type(e.op)]
                a, ta, ca = self.number(e.left)
                b, tb, cb = self.number(e.right)
                if ta == 'int' and tb == 'int':
                    return f'({a} {sym} {b})', 'int', ca + cb
                return f'({self.to_num(e.left, a, ta)} {sym} {self.to_num(e.right, b, tb)})', 'num', ca + cb
            if isinstance(e.op, ast.Div):
                a, ca = self.num(e.left)
                b, cb = self.num(e.right)
                ch = ca + cb + ([] if nonzero_literal(e.right) else [f'Num.nonzero {b}'])
                return f'({a} / {b})', 'num', ch
            if isinstance(e.op, ast.Pow):
                # `b ** (-w)` with a positive int literal b and a `nat` w: the float 1 / b**w
                if isinstance(e.left, ast.Constant) and isinstance(e.left.value, int) and not isinstance(e.left.value, bool) \
                        and e.left.value > 0 and isinstance(e.right, ast.UnaryOp) and isinstance(e.right.op, ast.USub):
                    w, tw, cw = self.expr(e.right.operand)
                    if tw == 'nat':
                        return f'(Num.powNeg {e.left.value} {w} : α)', 'num', cw
                fail(e, 'power outside the subset (only <positive int literal> ** (-<nat>))')
            fail(e, 'binary operator outside the subset')
        if isinstance(e, ast.Compare):
            if len(e.ops) != 1:
                fail(e, 'chained comparison')
            op = type(e.ops[0])
            if op in (ast.Is, ast.IsNot):
                rhs = e.comparators[0]
                if not (isinstance(rhs, ast.Constant) and rhs.value is None):
                    fail(e, '`is` with something other than None')
                t, ty, ch = self.expr(e.left)
                if ty in NUMERIC:      # narrowed already, or never None
                    return ('False' if op is ast.Is else 'True'), 'prop', ch
                if ty == 'bool' and isinstance(e.left, ast.Attribute) and self.schema.fields.get(e.left.attr) == 'truthy':
                    # an object field consulted only through its presence
                    return (f'({t} = false)' if op is ast.Is else f'({t} = true)'), 'prop', ch
                if ty not in ('optint', 'optnum'):
                    fail(e, f'`is None` on a value of type {ty}')
                return (f'({t}.isNone = true)' if op is ast.Is else f'({t}.isSome = true)'), 'prop', ch
            a, ta, ca = self.number(e.left)
            b, tb, cb = self.number(e.comparators[0])
            if not (ta == 'int' and tb == 'int'):
                a, b = self.to_num(e.left, a, ta), self.to_num(e.comparators[0], b, tb)
                isint = False
            else:
                isint = True
            if op is ast.Lt:
                t = f'({a} < {b})'
            elif op is ast.LtE:
                t = f'({a} ≤ {b})'
            elif op is ast.Gt:
                t = f'({b} < {a})'
            elif op is ast.GtE:
                t = f'({b} ≤ {a})'
            elif op is ast.Eq:
                t = f'({a} = {b})' if isint else f'(Num.eqb {a} {b} = true)'
            elif op is ast.NotEq:
                t = f'({a} ≠ {b})' if isint else f'(Num.eqb {a} {b} = false)'
            else:
                fail(e, 'comparison operator outside the subset')
            return t, 'prop', ca + cb
        if isinstance(e, ast.Call) and isinstance(e.func, ast.Name) and not e.keywords:
            if e.func.id in ('min', 'max') and len(e.args) == 2:
                a, ta, ca = self.number(e.args[0])
                b, tb, cb = self.number(e.args[1])
                if ta == 'int' and tb == 'int':
                    # Python keeps the first argument on ties; on ints the value is the same either way
                    return f'({e.func.id} {a} {b})', 'int', ca + cb
                return (f'(Num.py{e.func.id} {self.to_num(e.args[0], a, ta)} {self.to_num(e.args[1], b, tb)})', 'num',
                        ca + cb)
            if e.func.id == 'abs' and len(e.args) == 1:
                a, ca = self.num(e.args[0])
                return f'(Num.pyabs {a})', 'num', ca
        if isinstance(e, ast.Call) and isinstance(e.func, ast.Attribute) and e.func.attr == 'get' and len(e.args) == 2 \
                and not e.keywords and isinstance(e.func.value, ast.Attribute) and is_self_attr(e.func.value, e.func.value.attr) \
                and isinstance(e.args[0], ast.Name) and e.args[0].id in self.keys:
            f = e.func.value.attr
            if self.schema.fields.get(f) == 'dictoptint':
                d, td, cd = self.number(e.args[1])
                if td != 'int':
                    fail(e, 'default of .get must be an int')
                return f'(s.{f}.getD {d})', 'int', cd
        fail(e, 'expression outside the subset')

    def cond(self, e):
        """a decidable proposition"""
        t, ty, ch = self.expr(e)
        if ty == 'bool':
            return f'({t} = true)', ch
        if ty == 'prop':
            return t, ch
        fail(e, f'truth value of a value of type {ty} is outside the subset')

    # -- statements
    def is_ignored(self, st):
        if isinstance(st, ast.Pass):
            return True
        if isinstance(st, ast.Expr) and isinstance(st.value, ast.Constant) and isinstance(st.value.value, str):
            return True
        if isinstance(st, ast.Expr) and isinstance(st.value, ast.Call):
            head = dotted(st.value.func)
            if head in self.ignore_calls:
                return True
        if isinstance(st, ast.If) and not st.orelse and is_self_attr(st.test, 'debug') \
                and all(self.is_ignored(x) for x in st.body):
            return True
        return False

    def narrowing(self, test):
        """(python text of the optional value, lean scrutinee, var, type of var, branch taken when it is a number)
        for tests `x is None`, `x is not None`, `x`, `not x` on an optional value; else None"""
        neg = False
        t = test
        if isinstance(t, ast.UnaryOp) and isinstance(t.op, ast.Not):
            neg, t = True, t.operand
        truth = True
        if isinstance(t, ast.Compare) and len(t.ops) == 1 and isinstance(t.ops[0], (ast.Is, ast.IsNot)) \
                and isinstance(t.comparators[0], ast.Constant) and t.comparators[0].value is None:
            truth = False
            if isinstance(t.ops[0], ast.Is):
                neg = not neg
            t = t.left
        key = ast.unparse(t)
        if key in self.narrow or key in self.facts:
            return None
        probe = set(self.drawn)
        try:
            txt, ty, ch = self.expr(t)
        except Unsupported:
            return None
        finally:
            self.drawn = probe            # a probe, not an evaluation
        if ty not in ('optint', 'optnum') or ch:
            return None
        var = key.replace('self.', '').replace('.', '_') + '_v'
        if truth:
            # `if x:` - None and zero are both false
            scrut = f'Num.optOn {txt}' if ty == 'optnum' else f'Num.optOnInt {txt}'
        else:
            scrut = txt
        self._truth_test = truth
        return key, scrut, var, ('num' if ty == 'optnum' else 'int'), (not neg)

    def static_truth(self, test):
        """True / False when the tests passed so far on this path decide `test` (a test on an optional value), else None"""
        if isinstance(test, ast.UnaryOp) and isinstance(test.op, ast.Not):
            r = self.static_truth(test.operand)
            return None if r is None else (not r)
        if isinstance(test, ast.Compare) and len(test.ops) == 1 and isinstance(test.ops[0], (ast.Is, ast.IsNot)) \
                and isinstance(test.comparators[0], ast.Constant) and test.comparators[0].value is None:
            f = self.facts.get(ast.unparse(test.left))
            isnone = {'truthy': False, 'number': False, 'none': True}.get(f)
            if isnone is None:
                return None
            return isnone if isinstance(test.ops[0], ast.Is) else (not isnone)
        f = self.facts.get(ast.unparse(test))
        return {'truthy': True, 'falsy': False, 'none': False}.get(f)

    def block(self, stmts):
        """IR of the statement list (each path carries its own continuation where needed)"""
        stmts = list(stmts)
        while stmts and self.is_ignored(stmts[0]):
            stmts = stmts[1:]
        if not stmts:
            return End()
        st, rest = stmts[0], stmts[1:]
        if isinstance(st, ast.Return):
            if st.value is not None:
                fail(st, 'return with a value')
            return End()
        if isinstance(st, ast.Expr) and isinstance(st.value, ast.Yield):
            # `yield env.timeout(dt)`: the burst ends here; what follows is the fragment `…_after_<i>`
            if id(st) not in self.yield_index:
                fail(st, 'a `yield` in something that is not translated as a generator')
            i = self.yield_index[id(st)]
            dt, ch = self.num(timeout_arg(st, 'generator'))
            self.after.setdefault(i, rest)
            self.poison_at.setdefault(i, set()).update(
                [n for n in self.scope if n not in self.param_names] + list(self.aliases))
            return Let('s', f'{{ s with yield_at := {i}, yield_dt := {dt} }}', ch, End())
        if isinstance(st, (ast.Assert, ast.Raise)):
            return self.raising(st, rest)
        # a value that may be None used as a number: Python raises TypeError there
        if isinstance(st, (ast.Assign, ast.AugAssign, ast.AnnAssign, ast.If)):
            opt = self.first_unnarrowed_use(st)
            if opt is not None:
                key, txt, ty = opt
                var = key.replace('self.', '').replace('.', '_') + '_v'
                saved = self.save()
                self.narrow[key] = (var, 'num' if ty == 'optnum' else 'int')
                self.facts[key] = 'number'
                some = self.block([st] + rest)
                self.restore(saved)
                return Match(txt, var, some, self.raise_node(st, 'TypeError'))
        # effects
        for ef in self.effects:
            ups = ef.match(self, st)
            if ups is not None:
                self.used_effects.add(ef.name)
                fld = f'eff_{ef.name}'
                if self.schema.fields.get(fld) != 'effect':
                    fail(st, f'effect {ef.name} has no counter field in the schema')
                sets = [f'{fld} := s.{fld} + 1']
                checks = []
                for f, val, ty, ch in ups:
                    want = self.schema.fields.get(f)
                    if want is None or LEAN_TY[want] != LEAN_TY[ty]:
                        fail(st, f'effect value {f} is declared {want}, carries {ty}')
                    sets.append(f'{f} := {val}')
                    checks += ch
                return Let('s', '{ s with ' + ', '.join(sets) + ' }', checks, self.block(rest))
        # self.m(...) of a translated method
        if isinstance(st, ast.Expr) and isinstance(st.value, ast.Call):
            c = st.value
            if isinstance(c.func, ast.Attribute) and isinstance(c.func.value, ast.Name) and c.func.value.id == 'self' \
                    and c.func.attr in self.methods and not c.keywords:
                name, extra = self.methods[c.func.attr]
                args, ch = [], []
                for a in c.args:
                    t, cc = self.num(a)
                    args.append(t)
                    ch += cc
                ap = ''.join(' ' + a for a in list(extra) + args)
                return Let('s', f'{name} s{ap}', ch + [f'{name}.safe s{ap}'], self.block(rest))
            fail(st, 'call outside the subset (neither a declared effect nor a translated method)')
        if isinstance(st, ast.For):
            for lp in self.loops:
                r = lp(self, st)
                if r is not None:
                    node = self.block(rest)
                    for var, val, ch in reversed(r):
                        node = Let(var, val, ch, node)
                    return node
            fail(st, 'loop outside the recognised shapes')
        if isinstance(st, (ast.Assign, ast.AugAssign, ast.AnnAssign)):
            return self.assign(st, rest)
        if isinstance(st, ast.If):
            return self.ifstmt(st, rest)
        fail(st, 'statement outside the subset')

    def raise_node(self, st, exc):
        if self.schema.fields.get('raised') != 'flag':
            fail(st, f'the statement can raise {exc} and the schema has no `raised` field')
        if exc not in RAISED:
            fail(st, f'exception {exc} outside the subset')
        return Let('s', f'{{ s with raised := {RAISED[exc]} }}', [], End())

    def raising(self, st, rest):
        """`assert e` / `raise E(...)`: the path ends with `raised` set"""
        if isinstance(st, ast.Raise):
            exc = st.exc.func if isinstance(st.exc, ast.Call) else st.exc
            if not isinstance(exc, ast.Name):
                fail(st, 'raise outside the subset')
            return self.raise_node(st, exc.id)
        # assert e  ==  if e: <rest> else: raise AssertionError
        fake = ast.If(test=st.test, body=[ast.Pass()], orelse=[ast.Raise(exc=ast.Name(id='AssertionError'), cause=None)])
        ast.copy_location(fake, st)
        return self.ifstmt(fake, rest)

    def optional_unnarrowed(self, n):
        return isinstance(n, ast.Attribute) and isinstance(n.value, ast.Name) and n.value.id == 'self' \
            and self.schema.fields.get(n.attr) in ('optint', 'optnum') and ast.unparse(n) not in self.narrow

    def first_unnarrowed_use(self, st):
        """the first optional field that the statement's own expressions use *as a number* without a None test
        before it: (python text, lean text, type), else None.  (`x is None`, `if x:`, `not x` are tests, not uses.)"""
        found = []

        def visit(e, numeric):
            if self.optional_unnarrowed(e):
                if numeric:
                    found.append(e)
                return
            if isinstance(e, ast.BinOp):
                visit(e.left, True); visit(e.right, True)
            elif isinstance(e, ast.UnaryOp):
                visit(e.operand, isinstance(e.op, ast.USub))
            elif isinstance(e, ast.BoolOp):
                for v in e.values:
                    visit(v, False)
            elif isinstance(e, ast.Compare):
                isnone = isinstance(e.ops[0], (ast.Is, ast.IsNot))
                visit(e.left, not isnone)
                for c in e.comparators:
                    visit(c, not isnone)
            elif isinstance(e, ast.Call):
                for a in e.args:
                    visit(a, isinstance(e.func, ast.Name) and e.func.id in ('min', 'max', 'abs'))
        if isinstance(st, ast.If):
            if self.narrowing(st.test) is not None or self.guarded_or(st.test) is not None:
                return None
            visit(st.test, False)
        elif isinstance(st, ast.AugAssign):
            visit(st.target, True); visit(st.value, True)
        elif st.value is not None:
            visit(st.value, False)
        if not found:
            return None
        e = found[0]
        return ast.unparse(e), f's.{e.attr}', self.schema.fields[e.attr]

    def guarded_or(self, test):
        """`not X or C` / `X is None or C` with an optional X: (test on X, C), else None"""
        if isinstance(test, ast.BoolOp) and isinstance(test.op, ast.Or) and len(test.values) == 2:
            first = test.values[0]
            nw = self.narrowing(first)
            if nw is not None and nw[4] is False:      # the number branch is the one where `first` is false
                return first, test.values[1]
        return None

    def assign(self, st, rest):
        if isinstance(st, (ast.Assign, ast.AnnAssign)) and st.value is not None:
            t0 = st.targets[0] if isinstance(st, ast.Assign) and len(st.targets) == 1 else getattr(st, 'target', None)
            if isinstance(t0, ast.Name):
                vt = ast.unparse(st.value)
                if vt in self.key_exprs:
                    # `class_id = self.flow2class(packet.flow_id)`: from here on `class_id` is the class in hand
                    if t0.id in self.scope:
                        fail(st, f'{t0.id} is already a local')
                    self.keys.add(t0.id)
                    return self.block(rest)
                if vt in self.ext and self.ext[vt][0] == t0.id:
                    # `now = self.env.now`: the local is the external quantity of the same name
                    self.scope[t0.id] = self.ext[vt][1]
                    self.aliases.add(t0.id)
                    return self.block(rest)
        if isinstance(st, ast.Assign):
            if len(st.targets) != 1:
                fail(st, 'multiple assignment targets')
            tgt = st.targets[0]
            val, ty, ch = self.expr(st.value)
        elif isinstance(st, ast.AnnAssign):
            if st.value is None:
                fail(st, 'annotation without value')
            tgt = st.target
            val, ty, ch = self.expr(st.value)
        else:
            tgt = st.target
            a, ta, ca = self.number(st.target)
            b, tb, cb = self.number(st.value)
            if isinstance(st.op, (ast.Add, ast.Sub, ast.Mult)):
                sym = {ast.Add: '+', ast.Sub: '-', ast.Mult: '*'}[type(st.op)]
                if ta == 'int' and tb == 'int':
                    val, ty = f'({a} {sym} {b})', 'int'
                else:
                    val, ty = f'({self.to_num(st.target, a, ta)} {sym} {self.to_num(st.value, b, tb)})', 'num'
                ch = ca + cb
            elif isinstance(st.op, ast.Div):
                bn = self.to_num(st.value, b, tb)
                val, ty = f'({self.to_num(st.target, a, ta)} / {bn})', 'num'
                ch = ca + cb + ([] if nonzero_literal(st.value) else [f'Num.nonzero {bn}'])
            else:
                fail(st, 'augmented operator outside the subset')
        if ty == 'prop':
            fail(st, 'assignment of a comparison result')
        key = ast.unparse(tgt)
        field = None
        if isinstance(tgt, ast.Attribute) and isinstance(tgt.value, ast.Name) and tgt.value.id == 'self':
            field = tgt.attr
            if field in self.schema.ignore:
                return self.block(rest)
        elif isinstance(tgt, ast.Subscript) and isinstance(tgt.value, ast.Attribute) and is_self_attr(tgt.value, tgt.value.attr) \
                and isinstance(tgt.slice, ast.Name) and tgt.slice.id in self.keys:
            field = tgt.value.attr
            if not str(self.schema.fields.get(field, '')).startswith('dict'):
                fail(st, f'self.{field}[…] is not a per-class dict field of the schema')
        if key in self.views:
            field = self.views[key]
        if field is not None:
            want = self.schema.fields.get(field)
            if want is None:
                fail(st, f'assignment to self.{field}, which is not in the schema')
            val2 = self.store_as(st, val, ty, want, st.value if not isinstance(st, ast.AugAssign) else None)
            self.narrow.pop(key, None)          # the field is read afresh (and tested afresh) from here on
            self.facts.pop(key, None)
            if want in ('optint', 'optnum') and ty in NUMERIC:
                # a number is stored: bind it, the field is known to be that number on this path
                var = key.replace('self.', '').replace('.', '_') + '_v'
                inner = val if want == 'optint' else self.to_num(st.value if not isinstance(st, ast.AugAssign) else ast.Name(id='_'), val, ty)
                self.narrow[key] = (var, 'int' if want == 'optint' else 'num')
                self.facts[key] = 'number'
                return Let(var, inner, ch, Let('s', f'{{ s with {field} := (some {var}) }}', [], self.block(rest)))
            return Let('s', f'{{ s with {field} := {val2} }}', ch, self.block(rest))
        if isinstance(tgt, ast.Name):
            if tgt.id in RESERVED or tgt.id in [v[0] for v in self.ext.values()] or tgt.id in self.draws.values():
                fail(st, f'local name {tgt.id} clashes with a generated name')
            if tgt.id in self.keys:
                fail(st, f'the class key {tgt.id} is reassigned')
            if ty not in ('num', 'int', 'bool'):
                fail(st, f'local of type {ty}')
            self.scope[tgt.id] = ty
            return Let(tgt.id, val, ch, self.block(rest))
        fail(st, 'assignment target outside the subset')

    def store_as(self, st, val, ty, want, valnode):
        """the term stored into a field of declared type `want`"""
        if want in ('num', 'dictnum'):
            if ty not in NUMERIC:
                fail(st, f'field declared {want}, assigned {ty}')
            return self.to_num(valnode if valnode is not None else ast.Name(id='_'), val, ty)
        if want in ('int', 'dictint'):
            if ty != 'int':
                fail(st, f'field declared {want}, assigned {ty} (a float stored where the schema expects an int)')
            return val
        if want in ('bool', 'truthy'):
            if ty != 'bool':
                fail(st, f'field declared {want}, assigned {ty}')
            return val
        if want in ('optint', 'dictoptint'):
            if ty == 'int':
                return f'(some {val})'
            if ty == 'none':
                return 'none'
            fail(st, f'field declared {want}, assigned {ty}')
        if want == 'optnum':
            if ty in NUMERIC:
                return f'(some {self.to_num(valnode if valnode is not None else ast.Name(id="_"), val, ty)})'
            if ty == 'none':
                return 'none'
            fail(st, f'field declared {want}, assigned {ty}')
        fail(st, f'assignment to a field of type {want}')

    def needs_own_continuation(self, stmts):
        """does the branch return, bind a local, draw, or narrow?  then every branch carries its continuation"""
        for st in stmts:
            if self.is_ignored(st):
                continue
            for n in ast.walk(st):
                if isinstance(n, (ast.Return, ast.Yield, ast.Raise, ast.Assert)):
                    return True
                if isinstance(n, ast.Call) and ast.unparse(n) in self.draws:
                    return True
                if isinstance(n, ast.Attribute) and isinstance(n.value, ast.Name) and n.value.id == 'self' \
                        and self.schema.fields.get(n.attr) in ('optint', 'optnum'):
                    return True               # tests on / assignments to an optional field change what is known on the path
                if isinstance(n, (ast.Assign, ast.AnnAssign, ast.AugAssign)):
                    tg = n.targets[0] if isinstance(n, ast.Assign) else n.target
                    if isinstance(tg, ast.Name):
                        return True
        return False

    def phi(self, st):
        """`if c: x = a` / `else: x = b` with one plain local `x`: (x, translated a, translated b), else None"""
        if len(st.body) != 1 or len(st.orelse) != 1:
            return None
        a, b = st.body[0], st.orelse[0]
        for x in (a, b):
            if not (isinstance(x, ast.Assign) and len(x.targets) == 1 and isinstance(x.targets[0], ast.Name)):
                return None
            if any(ast.unparse(n) in self.draws for n in ast.walk(x.value)):
                return None
        if a.targets[0].id != b.targets[0].id:
            return None
        return a.targets[0].id, self.expr(a.value), self.expr(b.value)

    def ifstmt(self, st, rest):
        g = self.guarded_or(st.test)
        if g is not None:
            # `if not X or C: A else: B`  ==  `if not X: A` / `else: if C: A else: B`  (C is evaluated only when X is set)
            inner = ast.If(test=g[1], body=st.body, orelse=st.orelse)
            outer = ast.If(test=g[0], body=st.body, orelse=[inner])
            ast.copy_location(inner, st); ast.copy_location(outer, st)
            return self.ifstmt(outer, rest)
        known = self.static_truth(st.test)
        if known is not None:
            # decided by an earlier test on this path (e.g. the second `if self.pir:`): only that branch is translated
            return self.block((st.body if known else st.orelse) + rest)
        nw = self.narrowing(st.test)
        if nw is not None:
            key, scrut, var, vty, number_branch_is_body = nw
            truth = self._truth_test
            if var in self.scope or var in RESERVED:
                fail(st, f'generated name {var} clashes with a local')
            saved = self.save()
            self.narrow[key] = (var, vty)
            self.facts[key] = 'truthy' if truth else 'number'
            some = self.block((st.body if number_branch_is_body else st.orelse) + rest)
            self.restore(saved)
            self.facts[key] = 'falsy' if truth else 'none'
            none = self.block((st.orelse if number_branch_is_body else st.body) + rest)
            self.restore(saved)
            return Match(scrut, var, some, none)
        c, ch = self.cond(st.test)
        saved = self.save()
        phi = self.phi(st)
        if phi is not None:
            name, (va, ta, ca), (vb, tb, cb) = phi
            if ta != tb:
                if not (ta in NUMERIC and tb in NUMERIC):
                    fail(st, f'local {name} gets values of types {ta} and {tb}')
                va, vb, ta = self.to_num(st.body[0].value, va, ta), self.to_num(st.orelse[0].value, vb, tb), 'num'
            if name in RESERVED or name in self.keys:
                fail(st, f'local name {name} clashes with a generated name')
            self.scope[name] = ta
            checks = ch + ([f'if {c} then {conj(ca)} else {conj(cb)}'] if (ca or cb) else [])
            return Let(name, f'if {c} then {va} else {vb}', checks, self.block(rest))
        if self.needs_own_continuation(st.body) or self.needs_own_continuation(st.orelse):
            a = self.block(st.body + rest)
            self.restore(saved)
            b = self.block(st.orelse + rest)
            self.restore(saved)
            return Ite(c, ch, a, b)
        a = self.block(st.body)
        self.restore(saved)
        b = self.block(st.orelse)
        self.restore(saved)
        return Join(c, ch, a, b, self.block(rest))


def emit(leanname, schema, params, tr, stmts, origin, cls='Num'):
    """`params`: ordered [(name, type)] of the Lean parameters after the state"""
    ps = ''.join(f' ({p} : {LEAN_TY[t]})' for p, t in params)
    tr.bind(params)
    saved = tr.save()
    ir = tr.block(stmts)
    tr.restore(saved)
    STATE_TYPE[0] = f' : {schema.name} α' if phantom(schema) else ''
    state = render(ir, 2, 'state')
    safe = render(ir, 2, 'safe')
    STATE_TYPE[0] = ''
    return (f'/-- generated from {origin} -/\n'
            f'def {leanname} {{α : Type}} [{cls} α] (s : {schema.name} α){ps} : {schema.name} α :=\n  {state}\n\n'
            f'/-- `true` iff the executed path of `{leanname}` divides by zero nowhere -/\n'
            f'def {leanname}.safe {{α : Type}} [{cls} α] (s : {schema.name} α){ps} : Bool :=\n  {safe}\n')


def emit_value(leanname, schema, params, tr, e, origin, want='num', cls='Num'):
    """a named expression (a fragment that is a value): `def name (s) params : α`, plus its `.safe`"""
    ps = ''.join(f' ({p} : {LEAN_TY[t]})' for p, t in params)
    tr.bind(params)
    if want == 'bool':
        c, ch = tr.cond(e)
        body, rty = f'decide {c}', 'Bool'
    else:
        body, ch = tr.num(e)
        rty = 'α'
    sarg = f' (s : {schema.name} α)' if schema is not None else ''
    return (f'/-- generated from {origin} -/\n'
            f'def {leanname} {{α : Type}} [{cls} α]{sarg}{ps} : {rty} :=\n  {body}\n\n'
            f'/-- `true` iff `{leanname}` divides by no zero -/\n'
            f'def {leanname}.safe {{α : Type}} [{cls} α]{sarg}{ps} : Bool :=\n  {conj(ch)}\n')


def emit_generator(prefix, schema, params, mk_tr, body, origin, cls='Num'):
    """a server generator, split at its `yield env.timeout(dt)` statements.  `body` = the statements of one round of the
    loop after the `get`.  Emits `<prefix>_resume` (from the get to the first yield or to the end of the round) and, for
    the i-th yield in source order, `<prefix>_after_<i>` (from its resumption to the next yield or the end of the round).
    Each sets `yield_at` (0 = the round is complete, i = suspended in yield i) and `yield_dt` (the timeout).
    Locals bound before a yield are not part of the state: reading one afterwards is `Unsupported`."""
    if schema.fields.get('yield_at') != 'flag' or schema.fields.get('yield_dt') != 'num':
        raise Unsupported(f'py2lean: {prefix}: the schema needs `yield_at : flag` and `yield_dt : num`')
    ys = [n for st in body for n in ast.walk(st) if isinstance(n, ast.Expr) and isinstance(n.value, ast.Yield)]
    if any(isinstance(n, (ast.Yield, ast.YieldFrom)) for st in body for n in ast.walk(st)
           if not (isinstance(n, ast.Yield) and any(y.value is n for y in ys))):
        raise Unsupported(f'py2lean: {prefix}: a yield that is not a statement `yield env.timeout(…)`')
    index = {id(y): i + 1 for i, y in enumerate(ys)}
    reset = '{ s with yield_at := 0, yield_dt := (Num.ofNat 0 : α) }'
    ps = ''.join(f' ({p} : {LEAN_TY[t]})' for p, t in params)
    out, used, after, poison = [], set(), {}, {}

    def one(name, stmts, bad, what):
        tr = mk_tr()
        tr.yield_index = index
        tr.bind(params)
        tr.poison = set(bad)
        ir = Let('s', reset, [], tr.block(stmts))
        for i, rest in tr.after.items():
            after.setdefault(i, rest)
            poison.setdefault(i, set()).update(tr.poison_at.get(i, ()))
        used.update(tr.used_effects)
        return (f'/-- generated from {what} -/\n'
                f'def {name} {{α : Type}} [{cls} α] (s : {schema.name} α){ps} : {schema.name} α :=\n  {render(ir, 2, "state")}\n\n'
                f'/-- `true` iff the executed path of `{name}` divides by zero nowhere -/\n'
                f'def {name}.safe {{α : Type}} [{cls} α] (s : {schema.name} α){ps} : Bool :=\n  {render(ir, 2, "safe")}\n')

    out.append(one(f'{prefix}_resume', body, (), f'{origin}: from the `get` to the first `yield` (or the end of the round)'))
    done = set()
    while set(after) - done:
        i = min(set(after) - done)
        done.add(i)
        out.append(one(f'{prefix}_after_{i}', after[i], poison.get(i, ()),
                       f'{origin}: from the resumption after yield #{i} (`{ast.unparse(ys[i - 1])[:70]}`) to the next `yield` (or the end of the round)'))
    if done != set(index.values()):
        raise Unsupported(f'py2lean: {prefix}: yields {sorted(set(index.values()) - done)} are unreachable in the translation')
    return out, used, len(ys)


# ---- helpers for fragments of generator methods -----------------------------------------------------------------------

def is_yield_stmt(st):
    """`yield …` or `x = yield …` as a statement"""
    v = st.value if isinstance(st, (ast.Expr, ast.Assign, ast.AnnAssign)) else None
    return isinstance(v, ast.Yield)


def yield_call(st):
    """the call expression yielded by a yield statement"""
    return st.value.value


def contains_yield(st):
    return any(isinstance(n, (ast.Yield, ast.YieldFrom)) for n in ast.walk(st))


def server_loop(fn, what):
    """body of the single `while True:` of a server generator whose first statement is `packet = yield self.store.get()`"""
    loops = [n for n in fn.body if isinstance(n, ast.While)]
    if len(loops) != 1 or not (isinstance(loops[0].test, ast.Constant) and loops[0].test.value is True) or loops[0].orelse:
        raise Unsupported(f'py2lean: {what}: expected exactly one `while True:` loop')
    body = [st for st in loops[0].body]
    first = body[0]
    ok = isinstance(first, (ast.Assign, ast.AnnAssign)) and is_yield_stmt(first) \
        and ast.unparse(yield_call(first)) == 'self.store.get()'
    tgt = (first.targets[0] if isinstance(first, ast.Assign) else first.target) if ok else None
    if not ok or not (isinstance(tgt, ast.Name) and tgt.id == 'packet'):
        raise Unsupported(f'py2lean: {what}: the loop no longer starts with `packet = yield self.store.get()`')
    return body[1:]


def timeout_arg(st, what):
    """the argument `e` of a statement `yield env.timeout(e)` / `yield self.env.timeout(e)`"""
    if isinstance(st, ast.Expr) and isinstance(st.value, ast.Yield) and isinstance(st.value.value, ast.Call):
        c = st.value.value
        if dotted(c.func) in ('env.timeout', 'self.env.timeout') and len(c.args) == 1 and not c.keywords:
            return c.args[0]
    raise Unsupported(f'py2lean: {what}: expected `yield env.timeout(…)`, got `{ast.unparse(st)[:80]}`')


# ---- common effect patterns -------------------------------------------------------------------------------------------

def call_effect(name, text):
    """the statement is exactly the call `text` (e.g. 'self.store.put(packet)')"""
    def m(tr, st):
        if isinstance(st, ast.Expr) and isinstance(st.value, ast.Call) and ast.unparse(st.value) == text:
            return []
        return None
    return Effect(name, m)


def assign_effect(name, target_text, value_text):
    """the statement is exactly `target_text = value_text` (an assignment to something that is not `self`)"""
    def m(tr, st):
        if isinstance(st, ast.Assign) and len(st.targets) == 1 and ast.unparse(st.targets[0]) == target_text:
            if ast.unparse(st.value) != value_text:
                fail(st, f'`{target_text}` is no longer assigned `{value_text}`')
            return []
        return None
    return Effect(name, m)
